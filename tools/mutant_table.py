#!/usr/bin/env python3
"""Regenerates the mutant table in DESIGN.md 8.4 (between the MUTANT-TABLE markers) from mutants/*.patch and selftest.json."""
import os, json, glob, collections
HERE = os.path.dirname(os.path.dirname(os.path.abspath(__file__)))
st = json.load(open(os.path.join(HERE, 'selftest.json')))
by = collections.OrderedDict()
breaks = set(json.load(open(os.path.join(HERE, 'mutants', 'breaks_suite.json'))))
n = caught = 0
for p in sorted(glob.glob(os.path.join(HERE, 'mutants', '*.patch'))):
    name = os.path.basename(p)[:-6]
    pid, short = name.split('-', 1)
    r = st.get(name + '@quick', {})
    n += 1
    caught += bool(r.get('caught'))
    mark = ''
    if name in breaks:
        mark = ' (s)'
    if not r.get('caught'):
        mark += ' **NOT CAUGHT**' if r else ' (not run yet)'
    by.setdefault(pid, []).append(short + mark)
rows = ['| check | seeded breaks caught |', '|---|---|'] + ['| %s | %s |' % (k, ', '.join(v)) for k, v in by.items()]
summary = '%d patches in mutants/, %d caught by their property\'s quick tier at the last self-test run.' % (n, caught)
p = os.path.join(HERE, 'DESIGN.md')
s = open(p).read()
a, b = '<!-- MUTANT-TABLE-BEGIN -->', '<!-- MUTANT-TABLE-END -->'
block = a + '\n' + summary + '\n\n' + '\n'.join(rows) + '\n' + b
if a not in s:
    raise SystemExit('markers missing in DESIGN.md')
s = s[:s.index(a)] + block + s[s.index(b) + len(b):]
open(p, 'w').write(s)
print(summary)
