#!/bin/bash
# tools/sweep.sh [tier] [seeds...]  - every claimed check x several VERIF_SEED values; prints only what is not a clean HELD
cd "$(dirname "$0")/.."
tier=${1:-quick}; shift; seeds=${@:-1 2 3 0}   # seed 0 last: the evidence files left behind are those of the default seed
bad=0
for seed in $seeds; do
  for id in $(python3 -c "import json;print(' '.join(c['property_id'] for c in json.load(open('MANIFEST.json'))['checks']))"); do
    out=$(VERIF_SEED=$seed ./check $id $tier 2>&1); rc=$?
    if [ $rc -ne 0 ] || echo "$out" | grep -q '^VIOLATION'; then
      bad=$((bad+1)); echo "seed=$seed $id rc=$rc $(echo "$out" | grep -E '^(VIOLATION|INCONCLUSIVE|  \[)' | head -3 | cut -c1-300)"
    fi
  done
  echo "seed $seed done"
done
echo "sweep: $bad not clean"
