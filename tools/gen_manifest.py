#!/usr/bin/env python3
"""Regenerates /verif/MANIFEST.json from the table below (so it is always schema-valid).
   python3 tools/gen_manifest.py"""
import os
import json

HERE = os.path.dirname(os.path.dirname(os.path.abspath(__file__)))

NOTE = ('Trusted base: CPython 3.12 of /venv, Werkzeug/boltons/secure-cookie as installed, the '
        'reference oracle in vt/models written from the property statement, and the finite bounds '
        'stated in the evidence file. A pass means "held on the executions explored", not a proof.')

# id -> (technique, level category, level text, design ref)
CHECKS = {}


def add(pid, technique, text, ref, category='exploration', note=NOTE):
    CHECKS[pid] = (technique, category, text, ref, note)


add('C05', 'runtime monitoring: differential oracle (independent segment-assignment matcher) over an '
           'exhaustively enumerated small scope plus seeded random long paths',
    'Every pattern of <=2 elements in all three slash modes is run against every string of length <=4 over a '
    '10-symbol alphabet (22.8 M real match_path calls in the quick tier; <=3 elements / length <=5 in the '
    'thorough tier), each judged by a matcher that shares no code with the regex translation; plus random '
    '4-element patterns on long hostile paths, the pattern-grammar rejections and an end-to-end comparison of '
    'the parameters an endpoint receives. Exhaustive inside the bound, sampled beyond it.',
    'DESIGN.md section 3, C05')


add('C01', 'runtime monitoring: constructor outcomes and request-time call failures of generated configurations judged by an '
           'independent availability model; exhaustive small cores + seeded random stacks',
    'About 86 000 configurations per quick run (three exhaustively enumerated cores over {a,b} with every parameter kind, plus '
    'random stacks of 0-4 middlewares on one or two application levels in seven callable forms) are constructed with the real '
    'Application/Route; accept/reject and the exception type are compared with a model written from the statement, and every '
    'accepted configuration is exercised (matching request twice, 404, 405) under a re-raising error handler so that a '
    'framework call with a missing or unexpected argument escapes to the probe.',
    'DESIGN.md section 3, C01')
add('C02', 'runtime monitoring: spy functions record the identity of every argument they receive; compared with the reference '
           "onion's expected source per parameter; PYTHONHASHSEED sweep; generated chain source captured",
    'Every function of every accepted configuration logs what it was actually passed (resources, defaults and provided values are '
    'unique objects compared by identity; the request by its environ); two requests with different tokens and the catch-all route '
    'are compared with the expectation computed by the reference interpreter. Shards run under 8 (quick) / 20 (thorough) hash '
    'seeds because the chain text is assembled from sets.',
    'DESIGN.md section 3, C02')
add('C03', 'runtime monitoring: enter/leave/raise traces of spy middlewares compared with a reference onion interpreter under '
           'one scripted deviation per case',
    'Random stacks over 1-3 nested application levels with shared unique / non-unique / non-reorderable middleware types; one '
    'function per case raises before/after next, short-circuits, swallows or replaces the result; the observed event sequence '
    'and the final outcome at the WSGI boundary must equal the reference trace.',
    'DESIGN.md section 3, C03')
add('C04', 'runtime monitoring: constructor outcome of valid random hosts with exactly one planted conflict / reserved-name / '
           'next / context defect, model-confirmed before and after planting',
    'All 23 source pairs, the six reserved names as application resource / route resource / URL binding, middleware functions '
    'without a leading next in each phase, next in endpoint/render, required context outside the render phase; each planted into '
    'valid random hosts (160 hosts per pair in the quick tier), with unplanted controls that must be accepted and serve a request.',
    'DESIGN.md section 3, C04')


add('C06', 'runtime monitoring: responses and the endpoints\' own execution log compared with a reference dispatcher over '
           'enumerated and random routing tables',
    'Every 1- and 2-route table over a reduced catalogue (4 patterns x 3 method sets x 5 behaviours) is enumerated and queried; random '
    'tables of up to 4 routes over 8 patterns x 5 method sets x 9 behaviours are built by constructor list or by add(route, index) with '
    'negative/overshooting indices; status, answering route, Allow header of 405 and the exact sequence of endpoints that ran are compared '
    'with the reference (about 88 000 exchanges per quick run).',
    'DESIGN.md section 3, C06')
add('C07', 'runtime monitoring: status/Location of each exchange and of the follow-up exchange built from the Location, judged by an '
           'independent canonicalisation and slash-mode-inheritance model',
    'Random application trees (slash mode at application level, route opt-out, one or two embeddings with inherit_slashes on/off, '
    'SCRIPT_NAME set or not) x branch/leaf routes with static/single/multi/int bindings x hostile decoded segments x slash noise x '
    'query strings x all nine methods; every redirect is followed once and must land on the same route with the same decoded '
    'parameters and query without a second redirect; 23 000 cases per quick run.',
    'DESIGN.md section 3, C07')


add('C08', 'runtime monitoring: complete (environ, start_response) interaction recorded for scripted misbehaviour at every '
           'stack position under five error-handler kinds; probe-set and structure re-taken after every failure in histories',
    'Scripted deviations (8 non-Response/Response returns, 18 exception shapes x 8 message kinds incl. 1 MB, __str__/__repr__-raising and '
    'lone-surrogate text, raise/return of all 34 HTTPException classes breaking or not) at 20 stack positions x 2 renderer settings x '
    '5 handler kinds x 8 Accept headers, sampled 21 000 times per quick run; expected status from the statement; re-raised exceptions '
    'are compared by identity; a failing render_error is compared byte-wise with the default rendering of the same error; histories '
    'of 5-30 failing requests re-probe six fixed requests after each one.',
    'DESIGN.md section 3, C08')
add('C09', 'runtime monitoring: error responses parsed with json / expat / html.parser; canary-based escaping oracle; independent '
           'status table and Accept acceptability judge',
    'Every class of clastic.errors (raised and returned, default and overridden code/message/detail/error_type), 404s for hostile paths, '
    '405s and uncaught exceptions with hostile message, local variable, header, query and path segment, under the default and the debug '
    'handler and 32 Accept headers; 35 000 responses per quick run are parsed; canaries must never become elements or attributes and '
    'must re-appear verbatim as text where the page displays the field.',
    'DESIGN.md section 3, C09')


add('C10', 'runtime monitoring: differential execution of a nested application tree against an independently flattened declaration, '
           'plus absolute oracles (routing table, resource precedence, middleware order, renderer, error handler)',
    'Random trees of depth <=3 are built twice with the real clastic - nested through SubApplication and flat from the harness\'s own '
    'flattening (prefixing, outer-first middleware merge with unique types, resource merge, effective slash mode, resolved renderer) - '
    'and 14 requests per tree (44 000 per quick run) must agree in status, body, Location, error-handler stamp and the full trace of '
    'middleware/endpoint calls with injected values; what the statement fixes independently of the flat form is asserted directly, '
    'because a defect that bends both constructions alike is invisible to the differential part.',
    'DESIGN.md section 3, C10')
add('C11', 'runtime monitoring: model-based histories; every live application is compared with its model routing table, probed and '
           'fingerprinted after every operation',
    'Histories of construct / add route, tuple, sub-application at None, in-range, negative and overshooting indices / failing adds '
    '(unresolved dependency, conflict, bad pattern, bad middleware, k-th route of an embedded application) / embedding of live '
    'applications / re-binding one Route into several applications; after each step all live applications must list exactly the '
    'model\'s patterns, answer probe requests as the reference dispatcher predicts (incl. which middlewares stamped the response) and '
    'leave unbound Routes and embedded applications untouched; a failing add must change nothing.',
    'DESIGN.md section 3, C11')
add('C12', 'runtime monitoring under a deterministic thread scheduler (sys.settrace turn token at clastic line granularity): all '
           'single-preemption schedules of request pairs, seeded random multi-preemption schedules, free-running stress',
    'Per quick run: all 15 000 single-preemption schedules of the 81 ordered pairs of nine request kinds, 2 000 random schedules of 3-4 '
    'threads, and 24 000 free-running requests on 4x4 threads with a 1 us switch interval; each response must equal the response of '
    'the same request served alone and request ids must be unique in the process. Thorough adds opcode granularity inside application.py.',
    'DESIGN.md section 3, C12')


add('C13', 'runtime monitoring: wsgiref.validate around every exchange, a recording start_response/iterable probe, module-local '
           'open() tracking for file release, recording wsgi_wrapper middlewares, recording RerouteWSGI targets',
    'Every response kind of a scenario application (plain, streamed, rendered, static via StaticApplication and StaticFileRoute with '
    'and without a server file_wrapper, 304, redirect, 404/405/500, debug pages, meta pages, gzip/cache-processed) x GET/HEAD/POST/'
    'OPTIONS x header sets passes through the standard validator; call counts, body-for-HEAD and file closure are asserted '
    'directly; random stacks of wrapper middlewares over application/embedded/route level and applications without routes must nest '
    'in the stated order; RerouteWSGI targets must receive the identical environ object and be relayed verbatim.',
    'DESIGN.md section 3, C13')
add('C14', 'runtime monitoring with fault enumeration: byte comparison against an independent path mapping over an enumerated '
           'segment space, an open() audit hook, and the k-th-filesystem-call x errno fault sweep',
    'A generated tree with secrets beside and above the roots is served under eleven configurations (1-2 search paths, two overlapping '
    'applications, mount prefixes, three slash modes, five spellings of the search directory); every sequence of <=3 (thorough <=4) segments from a 21-word vocabulary '
    '(names, ".", "..", "", "...", pieces of the absolute root and secret paths) is requested as raw PATH_INFO (95 000 evaluations per '
    'quick run) and judged; every served file (incl. fresh, oddly named and normalisation-sensitive ones) is re-requested conditionally, directories and missing names too; for sampled requests each filesystem call made before the '
    'callable returns fails in turn with ENOENT/EACCES/EIO/EISDIR, as does every call about one file, each followed by a fault-free request.',
    'DESIGN.md section 3, C14', category='fault_enumeration')


add('C15', 'runtime monitoring: paired exchanges with/without each built-in middleware (alone and in random stacks) over a scenario '
           'application with every response kind; gzip-specific header/length/Vary assertions',
    'Twelve middleware configurations alone and 60 random stacks of 2-4 per shard over 26 request kinds x methods x nine Accept-Encoding '
    'values: status, decoded body and Location must equal those of the bare application (18 000 pairs per quick run); compressed bodies '
    'must decompress to the original with Content-Length = bytes sent and Vary: Accept-Encoding; non-accepting clients get identical bytes.',
    'DESIGN.md section 3, C15')
add('C16', 'runtime monitoring: request histories with a model cookie jar, the set of all server-issued payloads, a virtual clock '
           'patched into the middleware and its dependency, and twelve tamper classes',
    '3 000 histories per quick run (1-3 clients, session/never/numeric expiry, custom names): an intact unexpired cookie must present '
    'exactly the stored data; anything else must present nothing - or exactly a payload the server itself issued and that is unexpired - '
    'and must never produce an error response.',
    'DESIGN.md section 3, C16')
add('C19', 'runtime monitoring: stats reports compared with a model counter fed by the endpoints\' own reach log; icontract class '
           'invariant plus shadow model on the real Reservoir under long add/resize histories',
    'Part A: 500 histories of <=60 steps over 19 request kinds (200, redirects, raised/returned 4xx, uncaught, 404/405 on the catch-all, '
    'non-breaking fallthrough, slash redirects) interleaved with reads of the embedded stats application and resets. Part B: 11 000 '
    'Reservoir histories with capacities 1-12 incl. shrink-then-grow, bursts up to 40x capacity, per-history random.seed, one run '
    'filling the default 16 384-slot store; size<=capacity is an icontract invariant evaluated after every public method, exact counts '
    'and provenance by a shadow model.',
    'DESIGN.md section 3, C19')


add('C17', 'runtime monitoring: responses of real routes rendered from generated endpoint results, parsed (json / html.parser) and '
           'compared with the value',
    '32 000 renders per quick run through render_basic, render_json, render_json_dev, streaming JSON, a latin-1 JSON renderer and JSONP: '
    'clear-cut JSON / HTML / plain texts (str and bytes) must be labelled accordingly and pass through unchanged; scalars, None, '
    'objects, generators must yield 200; containers must come back as JSON equal to the value, or as an HTML table containing every '
    'cell when HTML is asked for and the shape is tabular; JSON-native data must round-trip exactly, dev mode must fall back to repr.',
    'DESIGN.md section 3, C17')
add('C18', 'runtime monitoring: unique sentinels planted in resource values and cookie signing keys, searched for in both meta views of '
           'generated host applications',
    '1 100 host applications per quick run (resources with secret as prefix/infix/suffix/whole name and without, values str/bytes/number/'
    'nested/object-repr/raising-repr; 14 route kinds; cookie, stats, gzip and hostile-repr middlewares; meta mounted directly or two '
    'levels deep): both views must answer 200, contain no sentinel of a secret-named resource nor the cookie key in raw / HTML- / '
    'JSON- / repr-escaped form, list secret resources with one common marker and show the other resources\' values.',
    'DESIGN.md section 3, C18')
add('C20', 'runtime monitoring: flaw.create_app on generated error texts and file lists; the served page tokenised with html.parser '
           '(canary oracle, verbatim text, file names, exception type and message)',
    '3 500 cases per quick run: real tracebacks (14 exception types, depths 1-30, 14 message shapes), SyntaxError reports, truncated / '
    'concatenated tracebacks, random control-character text, template syntax, empty / None / bytes / numbers; file lists None / empty / '
    '2 000 entries / hostile names; 11 paths x 5 methods. create_app must not raise, the answer must be a 200 HTML page with the text and '
    'every file name verbatim and no canary as markup.',
    'DESIGN.md section 3, C20')


def main():
    present = sorted(p for p in CHECKS if os.path.exists(os.path.join(HERE, 'vt', 'checks', p + '.py')))
    checks = []
    for pid in present:
        technique, category, text, ref, note = CHECKS[pid]
        checks.append({
            'property_id': pid,
            'quick_cmd': './check %s quick' % pid,
            'thorough_cmd': './check %s thorough' % pid,
            'evidence_file': 'evidence/%s.json' % pid,
            'replay_cmd_template': './check %s --replay {path}' % pid,
            'engine': 'vt',
            'level_claimed': {'category': category, 'text': text, 'design_ref': ref},
            'level_note': note,
            'technique': technique,
        })
    all_ids = ['C%02d' % i for i in range(1, 21)]
    na = [{'property_id': p,
           'reason': 'check not built yet in this revision (planned: runtime monitor per DESIGN.md section 3); '
                     'the technique applies, nothing is claimed until the monitor exists'}
          for p in all_ids if p not in present]
    manifest = {
        'version': 1,
        'setup_cmd': './setup.sh',
        'hooks': {
            'guard': 'CLASTIC_VERIF',
            'enable': 'no source hooks: all monitors attach from the harness (wrappers around module '
                      'attributes, sys.settrace, audit hooks); workers export CLASTIC_VERIF=1 for uniformity',
            'baseline_off_cmd': 'cd /repo && env -u CLASTIC_VERIF /venv/bin/python -m pytest -ra -q '
                                '-p no:cacheprovider --timeout=900 --continue-on-collection-errors',
            'source_commits': [],
            'add_only': True,
        },
        'engines': [{
            'name': 'vt',
            'path': 'vt/',
            'serves_properties': present,
            'kind_free_text': 'runtime monitoring harness: raw-WSGI client boundary recorder, synthesised spy '
                              'middlewares/endpoints, reference oracles, deterministic thread scheduler, '
                              'module-local fault injection, per-shard worker processes',
        }],
        'checks': checks,
        'notes': 'Exit codes: 0 held on everything explored (KNOWN-FINDING lines possible), 1 VIOLATION, '
                 '2 INCONCLUSIVE (a deciding monitor observed nothing / a worker crashed). '
                 'VERIF_SEED selects the random part; VERIF_REPO overrides the tree under observation '
                 '(used by tools/selftest.py on scratch copies).',
        'not_applicable': na,
    }
    with open(os.path.join(HERE, 'MANIFEST.json'), 'w') as f:
        json.dump(manifest, f, indent=1)
    print('MANIFEST.json: %d checks, %d not claimed' % (len(checks), len(na)))


if __name__ == '__main__':
    main()
