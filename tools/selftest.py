#!/usr/bin/env python3
"""Self-test of the monitors by seeded breaks.

   tools/selftest.py [--tier quick] [--tests] [PATTERN ...]

For every mutants/<ID>-<name>.patch (or seeded/<name>/patch.diff with meta.json naming the
property) matching a PATTERN: copy /repo's working tree (tracked files) to a scratch directory outside
/repo and /verif, apply the patch, optionally run the repository's own test suite there (--tests;
a realistic break must pass it), run `./check <ID> <tier>` with VERIF_REPO pointing at the copy,
expect exit 1 + a VIOLATION line, delete the copy.  Results are appended to selftest.json."""
import os, sys, json, glob, shutil, subprocess, tempfile, time, fnmatch
HERE = os.path.dirname(os.path.dirname(os.path.abspath(__file__)))
REPO = '/repo'

def collect(patterns):
    items = []
    for p in sorted(glob.glob(os.path.join(HERE, 'mutants', '*.patch'))):
        name = os.path.basename(p)[:-6]
        items.append((name, name.split('-')[0], p))
    for d in sorted(glob.glob(os.path.join(HERE, 'seeded', '*'))):
        meta, patch = os.path.join(d, 'meta.json'), os.path.join(d, 'patch.diff')
        if os.path.exists(meta) and os.path.exists(patch):
            m = json.load(open(meta))
            if m.get('equivalent'):
                continue        # judged not to break the property under the reading the check adopts (see its meta.json); kept as a benign patch
            items.append(('seeded/' + os.path.basename(d), m.get('check_with', m['property']), patch))
    if patterns:
        items = [i for i in items if any(fnmatch.fnmatch(i[0], pt) or pt in i[0] for pt in patterns)]
    return items

def run_one(name, pid, patch, tier, with_tests, extra_checks=()):
    scratch = tempfile.mkdtemp(prefix='clastic-mut-')
    try:
        subprocess.run('git -C %s ls-files -z | (cd %s && xargs -0 cp --parents -t %s)' % (REPO, REPO, scratch),
                       shell=True, check=True)
        # working-tree edits of tracked files are part of "the current tree"
        r = subprocess.run(['patch', '-p1', '-s', '-d', scratch, '-i', patch], capture_output=True, text=True)
        if r.returncode != 0:
            return {'name': name, 'property': pid, 'status': 'patch-failed', 'detail': (r.stdout + r.stderr)[-400:]}
        res = {'name': name, 'property': pid}
        if with_tests:
            t = subprocess.run(['/venv/bin/python', '-m', 'pytest', '-q', '-x', '-p', 'no:cacheprovider',
                                '--timeout=900', 'clastic'], cwd=scratch, capture_output=True, text=True, errors='replace',
                               env=dict(os.environ, PYTHONPATH=scratch, PYTHONDONTWRITEBYTECODE='1'))
            res['tests_pass'] = t.returncode == 0
            res['tests_tail'] = t.stdout.strip().splitlines()[-1:] if t.stdout else []
        env = dict(os.environ, VERIF_REPO=scratch)
        outs = {}
        for cid in (pid,) + tuple(extra_checks):
            t0 = time.time()
            c = subprocess.run([os.path.join(HERE, 'check'), cid, tier], capture_output=True, text=True, errors='replace', env=env)
            lines = [l for l in c.stdout.splitlines() if l.startswith(('VIOLATION', 'INCONCLUSIVE', 'HELD', '  ['))]
            outs[cid] = {'exit': c.returncode, 'wall_s': round(time.time() - t0, 1), 'lines': lines[:6]}
            if c.returncode not in (0, 1):
                outs[cid]['stderr'] = c.stderr[-600:]
        res['checks'] = outs
        res['caught'] = outs[pid]['exit'] == 1 and any(l.startswith('VIOLATION') for l in outs[pid]['lines'])
        return res
    finally:
        shutil.rmtree(scratch, ignore_errors=True)

def benign(patterns, tier):
    """benign/*.patch: property-preserving changes (a '# checks: C07 C05' header names the checks to run, default all).
    Every named check must exit 0 on the patched copy."""
    man = json.load(open(os.path.join(HERE, 'MANIFEST.json')))
    all_ids = [c['property_id'] for c in man['checks']]
    bad = 0
    for p in sorted(glob.glob(os.path.join(HERE, 'benign', '*.patch'))):
        name = os.path.basename(p)[:-6]
        if patterns and not any(pt in name for pt in patterns):
            continue
        head = open(p).readline()
        ids = head.split(':', 1)[1].split() if head.startswith('# checks:') else all_ids
        r = run_one('benign/' + name, ids[0], p, tier, True, extra_checks=tuple(ids[1:]))
        if r.get('status'):
            print('PATCH-FAILED  %s %s' % (name, r.get('detail', '')[:200]))
            bad += 1
            continue
        alarms = [(cid, o['exit'], (o['lines'] or [''])[0][:150]) for cid, o in r['checks'].items() if o['exit'] != 0]
        print('%-13s %-36s tests=%s %s' % ('QUIET' if not alarms else 'FALSE-ALARM', name, 'pass' if r.get('tests_pass') else 'FAIL',
                                            alarms if alarms else 'checks: ' + ' '.join(ids)), flush=True)
        bad += bool(alarms)
    return 1 if bad else 0


def main():
    args = sys.argv[1:]
    if args and args[0] == '--benign':
        return benign(args[1:], 'quick')
    tier, with_tests = 'quick', False
    pats = []
    while args:
        a = args.pop(0)
        if a == '--tier': tier = args.pop(0)
        elif a == '--tests': with_tests = True
        else: pats.append(a)
    items = collect(pats)
    results = []
    for name, pid, patch in items:
        r = run_one(name, pid, patch, tier, with_tests)
        results.append(r)
        flag = 'CAUGHT' if r.get('caught') else ('PATCH-FAILED' if r.get('status') else 'MISSED')
        extra = '' if not with_tests else (' tests=%s' % ('pass' if r.get('tests_pass') else 'FAIL'))
        first = ''
        if 'checks' in r:
            ls = r['checks'][pid]['lines']
            first = (ls[0] if ls else '')[:170]
            first = '%ss exit=%s %s' % (r['checks'][pid]['wall_s'], r['checks'][pid]['exit'], first)
        print('%-12s %-48s%s %s' % (flag, name, extra, first), flush=True)
    path = os.path.join(HERE, 'selftest.json')
    try:
        old = json.load(open(path))
    except Exception:
        old = {}
    for r in results:
        old[r['name'] + '@' + tier] = r
    json.dump(old, open(path, 'w'), indent=1, sort_keys=True)
    missed = [r['name'] for r in results if not r.get('caught')]
    print('%d/%d caught' % (len(results) - len(missed), len(results)))
    return 1 if missed else 0

sys.exit(main())
