#!/usr/bin/env python3
"""Ingest a property-breaking change written by a sub-agent.
   tools/ingest_seeded.py <PROPERTY> <worktree> <slug> "<what it needs to manifest>"
Copies out/patch.diff, out/demo.py, out/notes.md to seeded/<PROPERTY>-<slug>/, then CONFIRMS in a scratch copy
of /repo's tracked files: the patch applies, the repository's own suite passes with it, the demo exits non-zero with
it and 0 without it.  Writes meta.json with what was run and observed."""
import os, sys, json, shutil, subprocess, tempfile
HERE = os.path.dirname(os.path.dirname(os.path.abspath(__file__)))
prop, wt, slug, needs = sys.argv[1:5]
suffix = sys.argv[5] if len(sys.argv) > 5 else ''     # '1' / '2' when the agent delivered patch1.diff, patch2.diff ...
dst = os.path.join(HERE, 'seeded', '%s-%s' % (prop, slug))
os.makedirs(dst, exist_ok=True)
for f in ('patch.diff', 'demo.py', 'notes.md'):
    base, ext = f.split('.')
    src = os.path.join(wt, 'out', '%s%s.%s' % (base, suffix, ext))
    if os.path.exists(src):
        shutil.copy(src, os.path.join(dst, f))
scratch = tempfile.mkdtemp(prefix='clastic-seed-')
meta = {'property': prop, 'needs': needs, 'source': 'independent sub-agent given only the property text and a scratch worktree'}
try:
    subprocess.run('git -C /repo ls-files -z | (cd /repo && xargs -0 cp --parents -t %s)' % scratch, shell=True, check=True)
    r = subprocess.run(['patch', '-p1', '-s', '-d', scratch, '-i', os.path.join(dst, 'patch.diff')], capture_output=True, text=True)
    meta['patch_applies'] = r.returncode == 0
    env = dict(os.environ, PYTHONPATH=scratch, PYTHONDONTWRITEBYTECODE='1')
    t = subprocess.run(['/venv/bin/python', '-m', 'pytest', '-q', '-p', 'no:cacheprovider', '--timeout=900', 'clastic'],
                       cwd=scratch, capture_output=True, text=True, env=env)
    meta['suite_with_change'] = (t.stdout.strip().splitlines() or ['?'])[-1]
    meta['suite_passes_with_change'] = t.returncode == 0
    d1 = subprocess.run(['/venv/bin/python', os.path.join(dst, 'demo.py')], cwd='/tmp', capture_output=True, text=True, env=env, timeout=900)
    d0 = subprocess.run(['/venv/bin/python', os.path.join(dst, 'demo.py')], cwd='/tmp', capture_output=True, text=True,
                        env=dict(os.environ, PYTHONPATH='/repo', PYTHONDONTWRITEBYTECODE='1'), timeout=900)
    meta['demo_with_change'] = {'exit': d1.returncode, 'tail': (d1.stdout + d1.stderr).strip()[-300:]}
    meta['demo_without_change'] = {'exit': d0.returncode, 'tail': (d0.stdout + d0.stderr).strip()[-200:]}
    meta['confirmed'] = bool(meta['patch_applies'] and meta['suite_passes_with_change'] and d1.returncode != 0 and d0.returncode == 0)
    meta['ran'] = ['patch -p1 < patch.diff (scratch copy of /repo tracked files)', 'pytest -q clastic (PYTHONPATH=scratch)',
                   'demo.py with PYTHONPATH=scratch', 'demo.py with PYTHONPATH=/repo']
finally:
    shutil.rmtree(scratch, ignore_errors=True)
json.dump(meta, open(os.path.join(dst, 'meta.json'), 'w'), indent=1)
print(json.dumps({k: meta[k] for k in ('confirmed', 'patch_applies', 'suite_with_change', 'demo_with_change', 'demo_without_change')}, indent=1)[:900])
