#!/usr/bin/env python3
"""Create a mutant patch from an exact string replacement in a file of /repo.
   tools/mkmutant.py C05 name clastic/route.py 'old text' 'new text' ['why']   (old must occur once)
   Several replacements: repeat file/old/new triples separated by '--'."""
import sys, os, difflib
REPO = os.environ.get('VERIF_REPO', '/repo')
HERE = os.path.dirname(os.path.dirname(os.path.abspath(__file__)))

def main():
    pid, name = sys.argv[1:3]
    rest = sys.argv[3:]
    groups, cur = [], []
    for a in rest:
        if a == '--':
            groups.append(cur); cur = []
        else:
            cur.append(a)
    groups.append(cur)
    why = ''
    out = []
    for g in groups:
        f, old, new = g[:3]
        if len(g) > 3:
            why = g[3]
        old = old.encode().decode('unicode_escape') if '\\n' in old else old
        new = new.encode().decode('unicode_escape') if '\\n' in new else new
        src = open(os.path.join(REPO, f)).read()
        if src.count(old) != 1:
            sys.exit('%s: %r occurs %d times' % (f, old, src.count(old)))
        dst = src.replace(old, new)
        out.extend(difflib.unified_diff(src.splitlines(True), dst.splitlines(True), 'a/' + f, 'b/' + f))
    path = os.path.join(HERE, 'mutants', '%s-%s.patch' % (pid, name))
    with open(path, 'w') as fh:
        if why:
            fh.write('# %s\n' % why)
        fh.write(''.join(out))
    print(path)

main()
