#!/bin/bash
# tools/runall.sh [tier] [seed]  - run every claimed check once, print exit code and wall time
cd "$(dirname "$0")/.."
tier=${1:-quick}; seed=${2:-0}
for id in $(python3 -c "import json;print(' '.join(c['property_id'] for c in json.load(open('MANIFEST.json'))['checks']))"); do
  s=$(date +%s.%N)
  out=$(VERIF_SEED=$seed ./check $id $tier 2>&1); rc=$?
  e=$(date +%s.%N)
  printf "%s rc=%d %5.1fs %s\n" $id $rc $(echo "$e - $s" | bc) "$(echo "$out" | grep -E '^(HELD|VIOLATION|INCONCLUSIVE|KNOWN-FINDING)' | head -2 | cut -c1-110 | tr '\n' ' ')"
done
