#!/usr/bin/env python3
"""Regenerates the table of independent seeded changes in DESIGN.md (between the SEEDED-TABLE markers) from
seeded/*/meta.json, selftest.json and seeded/first_missed.json (dir name -> what was widened)."""
import os, json, glob
HERE = os.path.dirname(os.path.dirname(os.path.abspath(__file__)))
st = json.load(open(os.path.join(HERE, 'selftest.json')))
fm = json.load(open(os.path.join(HERE, 'seeded', 'first_missed.json')))
rows = ['| property | change (seeded/<dir>) | what it needs to manifest | caught by the property\'s quick check |', '|---|---|---|---|']
n = caught = 0
for d in sorted(glob.glob(os.path.join(HERE, 'seeded', '*', 'meta.json'))):
    m = json.load(open(d))
    name = os.path.basename(os.path.dirname(d))
    if m.get('equivalent'):
        rows.append('| %s | %s | %s | judged *not* a violation: %s (kept as benign/%s.patch, which must stay quiet) |'
                    % (m['property'], name, m['needs'], m['equivalent'], m.get('benign_name', name)))
        continue
    r = st.get('seeded/' + name + '@quick', {})
    n += 1
    caught += bool(r.get('caught'))
    note = 'yes' if name not in fm else 'missed at first; yes after ' + fm[name]
    if m.get('check_with'):
        note = ('caught by %s; ' % m['check_with']) + m.get('scope_note', '')
    if not r.get('caught'):
        note = '**NO**'
    rows.append('| %s | %s | %s | %s |' % (m['property'], name, m['needs'], note))
summary = ('%d changes, %d caught by the current checks; %d of them were missed by the checks as they stood when the change arrived '
           'and led to a wider workload.' % (n, caught, len(fm)))
p = os.path.join(HERE, 'DESIGN.md')
s = open(p).read()
a, b = '<!-- SEEDED-TABLE-BEGIN -->', '<!-- SEEDED-TABLE-END -->'
block = a + '\n' + summary + '\n\n' + '\n'.join(rows) + '\n' + b
if a in s:
    s = s[:s.index(a)] + block + s[s.index(b) + len(b):]
else:
    raise SystemExit('markers missing in DESIGN.md')
open(p, 'w').write(s)
print(summary)
