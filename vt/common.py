# -*- coding: utf-8 -*-
"""Shared plumbing for the runtime monitors: paths, stable hashing, the per-shard
accumulator (counters / distinct cases / samples / violations)."""
import os
import sys
import json
import hashlib
import collections

VERIF = os.path.dirname(os.path.dirname(os.path.abspath(__file__)))
REPO = os.path.abspath(os.environ.get('VERIF_REPO', '/repo'))
DEPS = os.path.join(VERIF, '.deps')
PY = '/venv/bin/python'

MAX_STORED_VIOLATIONS_PER_KEY = 12
MAX_SAMPLES_PER_CLASS = 1
MAX_SAMPLE_CLASSES = 12


def setup_paths():
    """Make sure the code under observation is REPO's working tree and the helper deps
    are importable *after* everything the repo's interpreter already has."""
    if REPO not in sys.path[:1]:
        sys.path.insert(0, REPO)
    if DEPS not in sys.path:
        sys.path.append(DEPS)


def import_clastic():
    setup_paths()
    import clastic
    here = os.path.dirname(os.path.abspath(clastic.__file__))
    want = os.path.join(REPO, 'clastic')
    if os.path.realpath(here) != os.path.realpath(want):
        raise RuntimeError('clastic imported from %s, expected %s' % (here, want))
    return clastic


def jsonable(obj, depth=0):
    """Best-effort conversion of a case/witness to something json.dump accepts."""
    if depth > 12:
        return repr(obj)[:200]
    if obj is None or isinstance(obj, (bool, int, str)):
        return obj
    if isinstance(obj, float):
        if obj != obj or obj in (float('inf'), float('-inf')):
            return repr(obj)
        return obj
    if isinstance(obj, bytes):
        return {'__bytes__': obj.decode('latin-1')}
    if isinstance(obj, dict):
        return {(k if isinstance(k, str) else repr(k)): jsonable(v, depth + 1)
                for k, v in obj.items()}
    if isinstance(obj, (list, tuple)):
        return [jsonable(v, depth + 1) for v in obj]
    if isinstance(obj, (set, frozenset)):
        return sorted((jsonable(v, depth + 1) for v in obj), key=repr)
    return repr(obj)[:400]


def unjson_bytes(obj):
    if isinstance(obj, dict):
        if set(obj) == {'__bytes__'}:
            return obj['__bytes__'].encode('latin-1')
        return {k: unjson_bytes(v) for k, v in obj.items()}
    if isinstance(obj, list):
        return [unjson_bytes(v) for v in obj]
    return obj


def stable_hash(obj):
    s = json.dumps(jsonable(obj), sort_keys=True, ensure_ascii=True)
    return int.from_bytes(hashlib.blake2b(s.encode('ascii'), digest_size=8).digest(), 'big')


class Shard(object):
    """What one worker observed.  Everything here is measured, nothing is constant."""

    def __init__(self, prop, spec=None):
        self.prop = prop
        self.spec = spec or {}
        self.evaluations = 0
        self.distinct = set()          # hashes of distinct non-trivial cases
        self.enumerated_distinct = 0   # non-trivial cases counted inside an enumeration whose
                                       # members are pairwise distinct by construction
        self.counters = collections.Counter()
        self.samples = collections.OrderedDict()
        self.violations = []           # stored (capped per key)
        self.violation_counts = collections.Counter()
        self.known_counts = collections.Counter()
        self.notes = {}
        self.sets = collections.defaultdict(set)   # named small sets (distinct outcomes, anchors...)

    # -- cases ---------------------------------------------------------------------
    def case(self, case, nontrivial=True, klass=None, sample=None):
        self.evaluations += 1
        if nontrivial:
            self.distinct.add(stable_hash(case))
        if klass is not None:
            self.counters['class:' + klass] += 1
            if klass not in self.samples and len(self.samples) < MAX_SAMPLE_CLASSES:
                self.samples[klass] = jsonable(sample if sample is not None else case)

    def count_enumerated(self, n_eval, n_nontrivial):
        self.evaluations += n_eval
        self.enumerated_distinct += n_nontrivial

    def sample(self, klass, case):
        if klass not in self.samples and len(self.samples) < MAX_SAMPLE_CLASSES:
            self.samples[klass] = jsonable(case)

    def hit(self, name, n=1):
        self.counters[name] += n

    def seen(self, setname, value):
        s = self.sets[setname]
        if len(s) < 5000:
            s.add(value)

    # -- verdicts ------------------------------------------------------------------
    def violation(self, key, what, case):
        """key names the *mechanism* (used to match known findings); case replays it."""
        self.violation_counts[key] += 1
        stored = sum(1 for v in self.violations if v['key'] == key)
        if stored < MAX_STORED_VIOLATIONS_PER_KEY:
            self.violations.append({'key': key, 'what': what, 'case': jsonable(case)})

    def export(self):
        return {
            'prop': self.prop,
            'evaluations': self.evaluations,
            'distinct': self.distinct,
            'enumerated_distinct': self.enumerated_distinct,
            'counters': dict(self.counters),
            'samples': dict(self.samples),
            'violations': self.violations,
            'violation_counts': dict(self.violation_counts),
            'notes': self.notes,
            'sets': {k: sorted(v, key=repr)[:5000] for k, v in self.sets.items()},
        }


class Rng(object):
    """Deterministic PRNG derived from (VERIF_SEED, shard label)."""

    def __init__(self, *parts):
        import random
        h = hashlib.blake2b(repr(parts).encode(), digest_size=8).digest()
        self.r = random.Random(int.from_bytes(h, 'big'))

    def __getattr__(self, name):
        return getattr(self.r, name)

    def chance(self, p):
        return self.r.random() < p

    def pick(self, seq):
        return seq[self.r.randrange(len(seq))]

    def subset(self, seq, p=0.5):
        return [x for x in seq if self.r.random() < p]
