# -*- coding: utf-8 -*-
"""Evaluate one DI configuration against the real clastic: construction verdict vs model,
then request traces vs the reference onion.  Returns findings tagged by property."""
import zlib
from . import spies, probe
from .models import di


def short_cfg(cfg):
    def f(fs):
        if not fs:
            return None
        return '%s[%s](%s)' % (fs['fid'], fs.get('form', 'function')[:4],
                               ', '.join('%s:%s' % (p, k) for p, k in fs['params']))

    def mw(m):
        d = {'mid': m['mid'], 'type': m['type']}
        for ph in ('request', 'endpoint', 'render'):
            if m.get(ph):
                d[ph] = f(m[ph])
        for a in ('provides', 'endpoint_provides', 'render_provides'):
            if m.get(a):
                d[a] = m[a]
        if not m.get('unique', True):
            d['unique'] = False
        if not m.get('reorderable', True):
            d['reorderable'] = False
        return d
    return {'levels': [{'mws': [mw(m) for m in l['mws']], 'resources': l['resources']} for l in cfg['levels']],
            'prefix_bindings': [l.get('prefix_bindings') or [] for l in cfg['levels'][:-1]],
            'build_via_add': bool(cfg.get('build_via_add')), 'render_via_factory': bool(cfg['route'].get('render_via_factory')), 'siblings': [[m['mid'] for m in sb['mws']] + (['embedded'] if sb.get('embedded') else []) for sb in (cfg['route'].get('siblings') or [])], 'decoys': cfg['route'].get('decoys') or [], 'resp_flavour': cfg.get('resp_flavour') or {}, 'exc_flavour': cfg.get('exc_flavour') or {}, 'ctx_flavour': cfg.get('ctx_flavour'), 'rebound_elsewhere': bool(cfg.get('rebound_elsewhere')),
            'route': {'bindings': cfg['route']['bindings'], 'resources': cfg['route']['resources'],
                      'mws': [mw(m) for m in cfg['route']['mws']], 'endpoint': f(cfg['route']['endpoint']),
                      'render': f(cfg['route'].get('render')), 'methods': cfg['route'].get('methods')},
            'beh': cfg.get('beh') or {}}


class Finding(object):
    def __init__(self, prop, key, what):
        self.prop, self.key, self.what = prop, key, what


def param_kinds(cfg):
    out = {}
    fs = [cfg['route']['endpoint'], cfg['route'].get('render')]
    for l in cfg['levels']:
        for m in l['mws']:
            fs += [m.get('request'), m.get('endpoint'), m.get('render')]
    for m in cfg['route']['mws']:
        fs += [m.get('request'), m.get('endpoint'), m.get('render')]
    for f in fs:
        if f:
            for p, k in f['params']:
                out[(f['fid'], p)] = k
    return out


def is_callsite_typeerror(exc):
    if isinstance(exc, NameError):
        return True
    if not isinstance(exc, TypeError):
        return False
    msg = str(exc)
    if msg.startswith('expected Response, received'):
        return False
    return True


def diff_traces(exp, act):
    """-> None or (category, text). category 'args' (same call, different values) or 'shape'."""
    n = min(len(exp), len(act))
    for i in range(n):
        e, a = exp[i], act[i]
        if e == a:
            continue
        if e[0] == a[0] == 'enter' and e[1] == a[1]:
            diffs = []
            for p in sorted(set(e[2]) | set(a[2])):
                if e[2].get(p) != a[2].get(p):
                    diffs.append((p, e[2].get(p), a[2].get(p)))
            return 'args', 'event %d: %s received %s' % (i, e[1], '; '.join(
                '%s=%r (expected %r)' % (p, av, ev) for p, ev, av in diffs)), diffs, e[1]
        return 'shape', 'event %d: expected %r, observed %r' % (i, e, a), None, None
    if len(exp) != len(act):
        extra = act[n:n + 2] if len(act) > n else exp[n:n + 2]
        return 'shape', 'trace length %d, expected %d (%s: %r)' % (
            len(act), len(exp), 'unexpected' if len(act) > n else 'missing', extra), None, None
    return None


def outcome_of(ex, tr, rt):
    """symbolic outcome of an exchange"""
    if ex.exc is not None:
        return rt.sym_result(ex.exc, tr)
    body = ex.body.decode('utf8', 'replace')
    if 'resp:' in body and not body.startswith('resp:'):      # a returned HTTP error rendered by the error handler
        body = body[body.index('resp:'):].split()[0]
    if 'exc:' in body:                                        # a raised HTTP error rendered by the error handler
        parts = body[body.index('exc:'):].split()[0].split(':')
        return ['exc', parts[1]] if (len(parts) >= 3 and parts[2] == str(ex.token)) else ['exc', parts[1], 'token-of-another-request']
    if body.startswith('resp:'):
        parts = body.split(':')
        return ['resp', parts[1]] if (len(parts) >= 3 and parts[2] == str(ex.token)) else ['resp', parts[1], 'token-of-another-request']
    return ['status', ex.status]


TEXTS = ['caf\u00e9', '\u00c3\u00a9', 'e\u0301d', '\u65e5\u672c', '\ufb01n', '\u212bng', 'S\u00c2\u00a7', '\u00fc\u00f1', 'z\u0142']


def evaluate(cfg, requests=('hit', 'hit2', 'hit-slashes', 'hit-absent', 'hit-absent', 'hit-long', 'hit-text', 'hit-text-absent', 'mistyped', '404', '405'), want=('C01', 'C02', 'C03', 'C04'), stats=None,
             shape_only=False, traces=None):
    """-> (findings, info).  info: {'model': summary, 'constructed': bool, 'exchanges': n, ...}"""
    findings = []
    info = {}
    views = di.views_of(cfg)
    issue_lists = [di.verdict(v) for v in views]
    summary, issues = di.summarize(issue_lists)
    info['model'] = summary
    info['issues'] = [repr(i) for i in issues][:6]
    built = spies.build(cfg)
    rt = built.rt
    info['constructed'] = built.error is None
    info['error'] = None if built.error is None else '%s: %s' % (type(built.error).__name__, str(built.error)[:200])
    codes = set(i.code for i in issues if i.kind != di.EITHER)
    c04_codes = codes & {'conflict', 'reserved-resource', 'mw-without-next', 'next-in-endpoint-or-render'}
    ctx_misuse = any(i.code == 'unsatisfied' and ' needs context ' in i.detail for i in issues)

    def construct_prop():
        if c04_codes or (ctx_misuse and codes == {'unsatisfied'}):
            return 'C04'
        if codes == {'merge'}:
            return 'C03'
        return 'C01'

    if summary == 'accept' and built.error is not None:
        findings.append(Finding('C01', 'C01/rejects-satisfiable',
                                'construction raised %s although every parameter is satisfiable' % info['error']))
    elif summary in ('reject-name', 'reject-any') and built.error is None:
        prop = construct_prop()
        code = sorted(codes)[0] if codes else 'unknown'
        findings.append(Finding(prop, '%s/accepted:%s' % (prop, code),
                                'construction succeeded although the model finds %s' % info['issues']))
    elif summary == 'reject-name' and not isinstance(built.error, NameError):
        prop = construct_prop()
        findings.append(Finding(prop, '%s/wrong-exception-type' % prop,
                                'rejected with %s, the statement demands NameError for %s' % (info['error'], info['issues'])))
    if built.error is not None or summary in ('reject-name', 'reject-any'):
        return findings, info
    # ---- request time -------------------------------------------------------------------------
    app = built.app
    kinds = param_kinds(cfg)
    route_view = [v for v in views if v['level'] == 0 and v['kind'] == 'route'][0]
    null_view = [v for v in views if v['level'] == 0 and v['kind'] == 'null'][0]
    info['exchanges'] = 0
    tok_n = [0]

    def run(kind):
        tok_n[0] += 1
        tok = 't%d' % tok_n[0]
        all_b = spies.prefix_binding_names(cfg) + list(cfg['route']['bindings'])
        n_decoys = len(cfg['route'].get('decoys') or []) + sum(1 for _ in (cfg['route'].get('siblings') or []))
        text = kind.startswith('hit-text')
        if text:
            # the same requests with text outside ASCII in the str segments (precomposed, decomposed, compatibility
            # characters, Latin-1 pairs that read as UTF-8 bytes, CJK): the functions must receive exactly that text
            kind = 'hit-absent' if kind == 'hit-text-absent' else 'hit'
        if kind in ('hit', 'hit2', 'hit-slashes', 'hit-absent', 'hit-long'):
            if kind == 'hit-slashes' and not cfg['route']['bindings']:
                return
            last_op = cfg['route'].get('last_op') if cfg['route']['bindings'] else None
            if (kind == 'hit-absent' and last_op not in ('?', '*')) or (kind == 'hit-long' and last_op not in ('*', '+')):
                return
            vals = {b: ('v%d_%s' % (tok_n[0], b)) for b in all_b}
            if text:
                if not all_b:
                    return
                # one class of text for the whole path (hit-text-absent) or a different one per segment
                step = 0 if kind == 'hit-absent' else 1
                k0 = zlib.crc32(repr(sorted(all_b)).encode())
                vals = {b: TEXTS[(k0 + tok_n[0] + i * step) % len(TEXTS)] + str(tok_n[0]) for i, b in enumerate(all_b)}
            last_type = cfg['route'].get('last_type') if cfg['route']['bindings'] else None
            if last_type and not last_op:
                vals[cfg['route']['bindings'][-1]] = str(1000 + tok_n[0])
            if last_op:
                # the last binding of the route takes zero-or-one / several segments
                last = cfg['route']['bindings'][-1]
                if kind == 'hit-absent':
                    vals[last] = None if last_op == '?' else []
                elif last_op in ('*', '+'):
                    n_seg = 70 if kind == 'hit-long' else 2
                    vals[last] = ['v%d_%s_%d' % (tok_n[0], last, i) for i in range(n_seg)]
                    if last_type:
                        vals[last] = [str(tok_n[0] * 100 + i) for i in range(n_seg)]
                elif last_type and kind != 'hit-absent':
                    vals[last] = str(1000 + tok_n[0])
            path, method, view = spies.request_path(cfg, vals, '//' if kind == 'hit-slashes' else '/'), 'GET', route_view
            conv = (lambda v: v)
            if last_type:
                last = cfg['route']['bindings'][-1]
                vals = dict(vals)
                vals[last] = [int(x) for x in vals[last]] if isinstance(vals[last], list) else (int(vals[last]) if vals[last] is not None else None)
            urlv = {b: ['value', v] for b, v in vals.items()}
            route_sym = ['route', n_decoys]
        elif kind == '404':
            path, method, view, urlv = '/nowhere/at/all', 'GET', null_view, {}
            route_sym = ['route', 'null']
        elif kind == 'mistyped':
            # a segment that is not a literal of the binding's type: the route does not match, the catch-all answers
            if not (cfg['route']['bindings'] and cfg['route'].get('last_type')) or cfg['route'].get('decoys') or cfg['route'].get('siblings'):
                return
            vals = {b: 'v_' + b for b in all_b}
            vals[cfg['route']['bindings'][-1]] = 'x1.5y' if cfg['route'].get('last_op') not in ('*', '+') else ['7', 'x1.5y', '9']
            path, method, view, urlv = spies.request_path(cfg, vals), 'GET', null_view, {}
            route_sym = ['route', 'null']
        else:
            if not cfg['route'].get('methods'):
                return
            vals = {b: 'w_' + b for b in all_b}
            if cfg['route']['bindings'] and cfg['route'].get('last_type'):
                vals[cfg['route']['bindings'][-1]] = '405'
            path, method, view, urlv = spies.request_path(cfg, vals), 'POST', null_view, {}
            route_sym = ['route', 'null']
        env = probe.make_environ(method, path)
        tr = spies.new_trace(env)
        ex = probe.call_wsgi(app, env, token=tok, trace=tr)
        info['exchanges'] += 1
        # application code may do what it likes with the values it was handed once it has them: every list a function
        # received is scribbled on after the request - the next request must get values of its own
        for lst in tr.get('lists') or []:
            lst.append('<left behind by request %s>' % tok)
        exp_trace, exp_out = di.reference_run(view, cfg.get('beh') or {}, urlv)
        for e in exp_trace:
            if e[0] == 'enter':
                for p, s in e[2].items():
                    if s == ['route']:
                        e[2][p] = route_sym
        act = tr['events']
        if tr.get('undeclared'):
            findings.append(Finding('C02', 'C02/undeclared-name-passed', '%s %s: %s received names it does not declare: %r'
                                    % (method, path, tr['undeclared'][0][0], tr['undeclared'][0][1])))
        if stats is not None and tr.get('varkw_functions'):
            stats['functions-with-var-keyword-parameters-called'] += tr['varkw_functions']
        if stats is not None:
            for e in act:
                if e[0] == 'enter':
                    for p, s in e[2].items():
                        stats['src:%s:%s' % (s[0], kinds.get((e[1], p), '?'))] += 1
        # C01: the framework must never mis-call a function of an accepted configuration
        if ex.exc is not None and id(ex.exc) not in tr['made'] and is_callsite_typeerror(ex.exc):     # (not one a spy raised on purpose)
            msg = str(ex.exc)
            involved = [k for (fid, p), k in kinds.items() if p in msg or fid.split('.')[0] in msg]
            tag = 'kwonly' if ('keyword-only' in msg) else ('posonly' if 'positional-only' in msg else 'other')
            findings.append(Finding('C01', 'C01/request-time-call-error:' + tag,
                                    '%s %s on an accepted configuration escaped: %s: %s'
                                    % (method, path, type(ex.exc).__name__, msg[:300])))
            # the same event under C02: the functions below the failing call never received the values of their sources
            findings.append(Finding('C02', 'C02/chain-call-failed:' + tag,
                                    '%s %s: the generated chain failed before every function received its arguments: %s: %s'
                                    % (method, path, type(ex.exc).__name__, msg[:300])))
            return
        if traces is not None:
            traces.append((kind, act))
        if shape_only:
            strip = lambda t: [[e[0], e[1], {}] if e[0] == 'enter' else e for e in t]
            d = diff_traces(strip(exp_trace), strip(act))
        else:
            d = diff_traces(exp_trace, act)
        if d is not None and d[0] == 'shape' and not shape_only:
            # the order of calls differs (C03's subject); every function that did run must still have received
            # exactly the values of its sources (C02's subject), so compare call by call
            exp_calls = dict((e[1], e[2]) for e in reversed(exp_trace) if e[0] == 'enter')
            for e in act:
                if e[0] == 'enter' and e[1] in exp_calls and e[2] != exp_calls[e[1]]:
                    bad = [(p, exp_calls[e[1]].get(p), e[2].get(p)) for p in sorted(set(e[2]) | set(exp_calls[e[1]]))
                           if e[2].get(p) != exp_calls[e[1]].get(p)]
                    p, ev, av = bad[0]
                    findings.append(Finding('C02', 'C02/%s-instead-of-%s:%s' % ((av or ['absent'])[0], (ev or ['absent'])[0],
                                                                                  kinds.get((e[1], p), '?')),
                                            '%s %s: %s received %s=%r (expected %r) [call order also differs]'
                                            % (method, path, e[1], p, av, ev)))
                    break
        if d is not None:
            cat, text, diffs, fid = d
            if cat == 'args':
                p, ev, av = diffs[0]
                k = kinds.get((fid, p), '?')
                findings.append(Finding('C02', 'C02/%s-instead-of-%s:%s' % (
                    (av or ['absent'])[0], (ev or ['absent'])[0], k), '%s %s: %s' % (method, path, text)))
            else:
                findings.append(Finding('C03', 'C03/trace-shape', '%s %s: %s' % (method, path, text)))
            return
        act_out = outcome_of(ex, tr, rt)
        if view['kind'] == 'null' and exp_out[:2] == ['resp', '<foreign>']:
            want_status = 404 if kind == '404' else 405
            if ex.status != want_status:
                findings.append(Finding('C03', 'C03/outcome', '%s %s: expected %d from the catch-all, got %r'
                                        % (method, path, want_status, act_out)))
        elif exp_out[0] == 'ctx':
            # a render-less route whose endpoint side produced no Response: dispatch reports it (C08)
            if not (ex.exc is not None and isinstance(ex.exc, TypeError)):
                findings.append(Finding('C03', 'C03/outcome', '%s %s: non-Response %r was not reported, got %r'
                                        % (method, path, exp_out, act_out)))
        elif act_out[:2] != exp_out[:2] or len(act_out) > 2:
            findings.append(Finding('C03', 'C03/outcome', '%s %s: expected outcome %r, observed %r'
                                    % (method, path, exp_out, act_out)))

    for kind in requests:
        run(kind)
    return findings, info
