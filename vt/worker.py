# -*- coding: utf-8 -*-
"""One shard in one fresh interpreter: python -m vt.worker <ID> <spec.json> <out.pkl>"""
import sys
import json
import pickle
import importlib
import faulthandler


def main():
    prop, specfile, outfile = sys.argv[1:4]
    with open(specfile) as f:
        spec = json.load(f)
    # hang watchdog: dump all stacks shortly before the runner's subprocess timeout kills us
    faulthandler.enable()
    faulthandler.dump_traceback_later(max(5, spec.get('timeout', 1800) - 5), exit=False)
    from vt.common import import_clastic, Shard, unjson_bytes
    import_clastic()
    mod = importlib.import_module('vt.checks.' + prop)
    sh = Shard(prop, spec)
    try:
        if spec.get('mode') == 'replay':
            mod.replay(sh, unjson_bytes(spec['case']), spec)
        else:
            mod.run_shard(sh, spec)
    except Exception as e:
        # An exception that clastic raised into a place where the harness did not expect one: on the unchanged tree this
        # never happens (every check runs to completion there), so it is clastic behaving in a way the monitors were not
        # built for - reported as a violation with the traceback as witness rather than as an inconclusive run.  An
        # exception that never touched clastic's code is the harness's own problem and stays a crash (inconclusive).
        import os
        import traceback
        from vt.common import REPO
        root = os.path.join(os.path.realpath(REPO), 'clastic') + os.sep
        frames = traceback.extract_tb(e.__traceback__)
        if not any(os.path.realpath(fr.filename).startswith(root) or fr.filename.startswith('<sinter') for fr in frames):
            raise
        where = [fr for fr in frames if os.path.realpath(fr.filename).startswith(root)]
        last = where[-1] if where else frames[-1]
        sh.violation('%s/unexpected-exception-from-clastic:%s' % (prop, type(e).__name__),
                     'the workload of shard %r stopped at %s: %s, raised in %s:%d (%s); traceback tail: %s'
                     % (spec.get('label'), type(e).__name__, str(e)[:200], os.path.basename(last.filename), last.lineno, last.name,
                        ' | '.join('%s:%d %s' % (os.path.basename(fr.filename), fr.lineno, fr.name) for fr in frames[-6:])),
                     {'shard': spec.get('label'), 'exception': repr(e)[:300]})
    faulthandler.cancel_dump_traceback_later()
    with open(outfile, 'wb') as f:
        pickle.dump(sh.export(), f, protocol=4)


if __name__ == '__main__':
    main()
