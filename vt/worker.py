# -*- coding: utf-8 -*-
"""One shard in one fresh interpreter: python -m vt.worker <ID> <spec.json> <out.pkl>"""
import sys
import json
import pickle
import importlib
import faulthandler


def main():
    prop, specfile, outfile = sys.argv[1:4]
    with open(specfile) as f:
        spec = json.load(f)
    # hang watchdog: dump all stacks shortly before the runner's subprocess timeout kills us
    faulthandler.enable()
    faulthandler.dump_traceback_later(max(5, spec.get('timeout', 1800) - 5), exit=False)
    from vt.common import import_clastic, Shard, unjson_bytes
    import_clastic()
    mod = importlib.import_module('vt.checks.' + prop)
    sh = Shard(prop, spec)
    if spec.get('mode') == 'replay':
        mod.replay(sh, unjson_bytes(spec['case']), spec)
    else:
        mod.run_shard(sh, spec)
    faulthandler.cancel_dump_traceback_later()
    with open(outfile, 'wb') as f:
        pickle.dump(sh.export(), f, protocol=4)


if __name__ == '__main__':
    main()
