# -*- coding: utf-8 -*-
"""Generators of dependency-injection configurations (format: vt/spies.py)."""
import itertools

from .models import di

NAMES = ['a', 'b', 'c', 'd']
BUILTINS = list(di.REQUEST_BUILTINS)
EP_FORMS = ['function', 'lambda', 'method', 'callable_object', 'staticmethod', 'classmethod', 'decorated']
MW_FORMS = ['function', 'method', 'lambda', 'callable_object']

KIND_WEIGHTS = [('req', 40), ('def', 22), ('kwreq', 14), ('kwdef', 14), ('pos', 6), ('posdef', 4)]
KIND_WEIGHTS_NOPOS = [('req', 44), ('def', 26), ('kwreq', 15), ('kwdef', 15)]


def wchoice(rng, pairs):
    tot = sum(w for _, w in pairs)
    x = rng.random() * tot
    for v, w in pairs:
        x -= w
        if x < 0:
            return v
    return pairs[-1][0]


def fix_kinds(params):
    """keep the signature syntactically valid: a defaulted positional(-only) parameter may not be
    followed by a non-defaulted positional one."""
    kinds = [k for _, k in params]
    if 'posdef' in kinds and ('req' in kinds):
        params = [(p, 'def' if k == 'req' else k) for p, k in params]
    return params


_used = []   # names recently used by other functions of the configuration being generated


def gen_function(rng, fid, role, avail, phase_ctx, opts, later=()):
    """avail: names available at this position.  later: names that only become available later
    (tempting wrong choices).  Returns function spec."""
    deviate = opts.get('deviate', 0.06)
    allow_pos = opts.get('posonly', True)
    n = wchoice(rng, [(0, 10), (1, 30), (2, 32), (3, 20), (4, 8)])
    pool_ok = sorted(avail)
    pool_all = NAMES + BUILTINS + ['context']
    chosen = []
    for _ in range(n):
        if later and rng.chance(0.12):
            # a name that only an inner layer offers: not available here, so (given a default below) the default applies
            p = rng.pick(sorted(later))
        elif pool_ok and not rng.chance(deviate * 2):
            p = rng.pick(pool_ok)
        else:
            if _used and rng.chance(0.5):
                p = rng.pick(_used)       # a name another function also mentions: shared-name corner cases
            else:
                p = rng.pick(list(later) + pool_all) if later and rng.chance(0.5) else rng.pick(pool_all)
        if p in chosen or p == 'next':
            continue
        chosen.append(p)
        _used.append(p)
    params = []
    for p in chosen:
        kind = wchoice(rng, KIND_WEIGHTS if allow_pos and rng.chance(0.5) else KIND_WEIGHTS_NOPOS)
        if p not in avail and not rng.chance(deviate * 3):
            # an unavailable name is normally given a default (legal: default is then used)
            kind = {'req': 'def', 'kwreq': 'kwdef', 'pos': 'posdef'}.get(kind, kind)
        params.append((p, kind))
    params = fix_kinds(params)
    if role == 'mw':
        params = [('next', 'req')] + params
    form = rng.pick(MW_FORMS if role == 'mw' else EP_FORMS)
    spec = {'fid': fid, 'params': [list(p) for p in params], 'form': form}
    if (form == 'method' or (form == 'callable_object' and role != 'mw')) and rng.chance(0.2):
        # the object the function is bound to is falsy (an empty container type).  Not for callable objects used as
        # middleware functions: Middleware.request/endpoint/render are None when absent and clastic tests them for
        # truth, so a falsy object there *is* "no function" by the framework's own convention
        spec['falsy'] = True
    if form == 'callable_object' and rng.chance(0.25):
        spec['wrapped'] = True          # carries __wrapped__ pointing at a function with another signature
    if form == 'callable_object' and rng.chance(0.25):
        spec['descriptor'] = True       # its class also defines __get__ (a class-based decorator usable on methods)
    if role == 'mw' and rng.chance(0.3):
        spec['next_style'] = 'pos'      # hands its provided values to next() positionally
    return spec


# perfectly legal names for resources, URL bindings and provided values - and typical names of locals, helpers and
# environment entries in generated or framework code
ODD_NAMES = ['resp', 'endpoint', 'render', 'funcs', 'BaseResponse', 'Response', 'ret', 'result', 'response', 'func', 'inner', 'env', 'code',
             'process_request', 'route', 'app', 'args', 'kwargs', 'params', 'name', 'type', 'id', 'exc', 'value', 'key', 'mw', 'f', 'next_', '_next', 'nxt', 'next2', 'context_', 'request_', '_route_', 'self_']


def rename_everywhere(cfg, old, new):
    def fix_list(lst):
        for i, x in enumerate(lst):
            if x == old:
                lst[i] = new

    def fix_func(f):
        if f:
            for p in f['params']:
                if p[0] == old:
                    p[0] = new

    def fix_mw(m):
        for a in ('provides', 'endpoint_provides', 'render_provides'):
            fix_list(m[a])
        for ph in ('request', 'endpoint', 'render'):
            fix_func(m.get(ph))
    for lv in cfg['levels']:
        fix_list(lv['resources'])
        if lv.get('prefix_bindings'):
            fix_list(lv['prefix_bindings'])
        for m in lv['mws']:
            fix_mw(m)
    r = cfg['route']
    fix_list(r['bindings'])
    fix_list(r['resources'])
    fix_func(r['endpoint'])
    fix_func(r.get('render'))
    for m in r['mws']:
        fix_mw(m)
    for sib in r.get('siblings') or []:
        for m in sib.get('mws') or []:
            fix_mw(m)
    for d in r.get('decoys') or []:
        if d.get('name') == old:
            d['name'] = new
    if cfg.get('none_resources'):
        cfg['none_resources'] = [new if x == old else x for x in cfg['none_resources']]
    cfg['renamed'] = [old, new]


def gen_config(rng, opts=None):
    opts = dict(opts or {})
    deviate = opts.get('deviate', 0.06)
    del _used[:]
    nlev = 2 if rng.chance(opts.get('p_nested', 0.2)) else 1
    if opts.get('levels'):
        nlev = opts['levels']
    names = list(NAMES)
    rng.shuffle(names)
    # sources decided first, disjoint unless a deviation is drawn
    n_bind = wchoice(rng, [(0, 35), (1, 40), (2, 25)])
    bindings = names[:n_bind]
    rest = names[n_bind:]
    level_res = [[] for _ in range(nlev)]
    route_res = []
    for nm in list(rest):
        if rng.chance(0.35):
            rest.remove(nm)
            where = rng.randrange(nlev + 1)
            (route_res if where == nlev else level_res[where]).append(nm)
    n_mws = wchoice(rng, [(0, 10), (1, 25), (2, 30), (3, 22), (4, 13)])
    if 'n_mws' in opts:
        n_mws = opts['n_mws']
    placement = sorted(rng.randrange(nlev + 1) for _ in range(n_mws))   # merged order = outer first
    offered = set(bindings) | set(route_res) | set(x for l in level_res for x in l)
    free = [n for n in NAMES if n not in offered]

    # plan provides per mw (so that "later" names are known while generating signatures)
    mws = []
    for i, where in enumerate(placement):
        phases = [ph for ph in ('request', 'endpoint', 'render') if rng.chance(0.55)]
        if not phases:
            phases = [rng.pick(['request', 'endpoint', 'render'])]
        mw = {'mid': 'm%d' % i, 'type': 'T%d' % i, 'unique': True, 'reorderable': True, 'where': where,
              'phases': phases, 'provides': [], 'endpoint_provides': [], 'render_provides': []}
        for ph, attr in (('request', 'provides'), ('endpoint', 'endpoint_provides'), ('render', 'render_provides')):
            has = ph in phases
            if (has and rng.chance(0.45)) or (not has and rng.chance(deviate / 2)):
                k = 1 if rng.chance(0.75) else 2
                for _ in range(k):
                    if free and not rng.chance(deviate):
                        nm = free.pop(rng.randrange(len(free)))
                    elif rng.chance(deviate * 2):
                        nm = rng.pick(NAMES + (BUILTINS if rng.chance(0.3) else []))   # likely a conflict
                    else:
                        continue
                    if nm not in mw[attr]:
                        mw[attr].append(nm)
        mws.append(mw)

    def base_at(where):
        """names available from non-middleware sources for a function placed at `where`
        (where == nlev: route level).  Functions of a level-k middleware also run on that level's
        catch-all route and on inner applications constructed on their own, so only the names every
        one of those bindings offers are safe."""
        if where == nlev:   # first bound into the innermost application alone
            return set(bindings) | set(route_res) | set(level_res[nlev - 1]) | set(BUILTINS)
        # app-level middleware: must also be satisfiable on the null route of its level
        return set(level_res[where]) | set(BUILTINS)

    def visible(src_where, where):
        if where == nlev:
            return src_where >= nlev - 1
        return src_where == where

    # request phase availability accumulates in merged order
    req_prov_before = []
    acc = set()
    for mw in mws:
        req_prov_before.append(set(acc))
        if 'request' in mw['phases']:
            acc |= set(mw['provides'])
    all_req = set(acc)
    ep_acc, rn_acc = set(), set()
    for i, mw in enumerate(mws):
        where = mw['where']
        for ph in ('request', 'endpoint', 'render'):
            if ph not in mw['phases']:
                mw[ph] = None
                continue
            base = base_at(where)
            if ph == 'request':
                prov = set(n for j in range(i) if 'request' in mws[j]['phases'] and visible(mws[j]['where'], where)
                           for n in mws[j]['provides'])
                later = all_req - prov - base
            elif ph == 'endpoint':
                prov = set(n for j in range(len(mws)) if 'request' in mws[j]['phases'] and visible(mws[j]['where'], where)
                           for n in mws[j]['provides'])
                prov |= set(n for j in range(i) if 'endpoint' in mws[j]['phases'] and visible(mws[j]['where'], where)
                            for n in mws[j]['endpoint_provides'])
                later = set(n for j in range(i + 1, len(mws)) if 'endpoint' in mws[j]['phases'] for n in mws[j]['endpoint_provides']) - prov - base
            else:
                prov = set(n for j in range(len(mws)) if 'request' in mws[j]['phases'] and visible(mws[j]['where'], where)
                           for n in mws[j]['provides'])
                prov |= set(n for j in range(i) if 'render' in mws[j]['phases'] and visible(mws[j]['where'], where)
                            for n in mws[j]['render_provides'])
                prov |= {'context'}
                later = set(n for j in range(i + 1, len(mws)) if 'render' in mws[j]['phases'] for n in mws[j]['render_provides']) - prov - base
            mw[ph] = gen_function(rng, '%s.%s' % (mw['mid'], ph), 'mw', base | prov, ph, opts, later)
    vis_req = set(n for mw in mws if 'request' in mw['phases'] and visible(mw['where'], nlev) for n in mw['provides'])
    ep_avail = base_at(nlev) | vis_req | set(n for mw in mws if 'endpoint' in mw['phases'] and visible(mw['where'], nlev)
                                             for n in mw['endpoint_provides'])
    rn_avail = base_at(nlev) | vis_req | {'context'} | set(n for mw in mws if 'render' in mw['phases'] and visible(mw['where'], nlev)
                                                           for n in mw['render_provides'])
    endpoint = gen_function(rng, 'ep', 'endpoint', ep_avail, 'endpoint', opts)
    render = gen_function(rng, 'rn', 'render', rn_avail, 'render', opts) if rng.chance(0.8) else None
    for mw in mws:
        mw.pop('phases')
    levels = []
    for k in range(nlev):
        levels.append({'mws': [dict((kk, vv) for kk, vv in m.items() if kk != 'where') for m in mws if m['where'] == k],
                       'resources': level_res[k], 'prefix': '/p%d' % k})
    route = {'bindings': bindings, 'mws': [dict((kk, vv) for kk, vv in m.items() if kk != 'where') for m in mws if m['where'] == nlev],
             'resources': route_res, 'endpoint': endpoint, 'render': render,
             'methods': ['GET'] if rng.chance(0.5) else None}
    if bindings and opts.get('binding_ops', True) and rng.chance(0.3):
        route['last_op'] = rng.pick(['?', '?', '*', '+'])      # the last URL binding is optional / takes several segments
    if bindings and opts.get('binding_ops', True) and rng.chance(0.25):
        route['last_type'] = 'int'                             # ... and / or typed: values arrive converted
    cfg = {'levels': levels, 'route': route, 'beh': {}, 'build_via_add': rng.chance(0.3)}
    all_res = sorted(set(route_res) | set(x for l in level_res for x in l))
    if all_res and opts.get('none_resources', True) and rng.chance(0.15):
        cfg['none_resources'] = [rng.pick(all_res)]         # a resource registered with the value None
    if opts.get('odd_names', True) and rng.chance(0.25):
        # one of the injectable names is replaced throughout by a name that code generators like to use for themselves
        old = rng.pick(NAMES)
        rename_everywhere(cfg, old, rng.pick(ODD_NAMES))
    # two instances of one *non-unique* middleware type on two different levels: both stay, each with its own provides
    by_where = {}
    for m in mws:
        by_where.setdefault(m.get('_w'), []).append(m)
    all_lists = [l['mws'] for l in levels] + [route['mws']]
    filled = [lst for lst in all_lists if lst]
    if opts.get('nonunique', True) and len(filled) >= 2 and rng.chance(0.2):
        la, lb = rng.sample(filled, 2)
        ma, mb = rng.pick(la), rng.pick(lb)
        mb['type'] = ma['type']
        # `unique` belongs to the type: every instance of it (a deliberate duplicate may share it already) is non-unique
        for lst in all_lists:
            for m in lst:
                if m['type'] == ma['type']:
                    m['unique'] = False
        cfg['nonunique_pair'] = [ma['mid'], mb['mid']]
    if opts.get('unique_dup', True) and len(filled) >= 2 and 'nonunique_pair' not in cfg and rng.chance(0.15):
        # two instances of one *unique* type on two levels: the outer one stays, the inner one is dropped - so it is the outer
        # instance's functions that run and its values that arrive
        ia, ib = sorted(rng.sample(range(len(all_lists)), 2))
        if all_lists[ia] and all_lists[ib]:
            ma, mb = rng.pick(all_lists[ia]), rng.pick(all_lists[ib])
            if not any(m['type'] == ma['type'] and m is not ma for lst in all_lists for m in lst) and ma.get('unique', True) and ma.get('reorderable', True):
                mb['type'] = ma['type']
                mb['unique'] = mb['reorderable'] = True
                # the dropped instance offers the same names as the kept one (as instances of one class normally do), or none
                same = rng.chance(0.6)
                for a in ('provides', 'endpoint_provides', 'render_provides'):
                    mb[a] = list(ma[a]) if same else []
                cfg['unique_dup'] = [ma['mid'], mb['mid']]
    for lv in levels[:-1]:
        if rng.chance(0.3):
            lv['embed'] = rng.pick(['subapp', 'subapp-own-slashes', 'subapp-own-slashes'])
    if opts.get('varkw', True) and rng.chance(0.3):
        # some functions also take **kwargs: that declares no name - such a function is passed what it names, nothing else
        for fn in [endpoint, render] + [m.get(ph) for m in mws for ph in ('request', 'endpoint', 'render')]:
            if fn and fn.get('form', 'function') in ('function', 'method', 'lambda', 'staticmethod') and rng.chance(0.4):
                fn['varkw'] = True
    if opts.get('rebound', True) and rng.chance(0.2):
        cfg['rebound_elsewhere'] = True
    if render is not None and rng.chance(0.25):
        route['render_via_factory'] = True      # render argument is a template name, the function comes from a render factory
    used = set(NAMES) & (set(bindings) | set(route_res) | set(x for l in level_res for x in l) |
                         set(n for m in mws for a in ('provides', 'endpoint_provides', 'render_provides') for n in m[a]))
    mentioned = set(p[0] for f in [endpoint, render] + [m.get(ph) for m in mws for ph in ('request', 'endpoint', 'render')] if f
                    for p in f['params'])
    spare = [n for n in NAMES + ['e', 'f'] if n not in used]
    if nlev > 1 and opts.get('prefix_bindings', True) and rng.chance(0.4):
        # URL bindings contributed by the mount prefix of an embedding (visible to the outer bindings only)
        k = rng.randrange(nlev - 1)
        pick = [n for n in spare if n not in mentioned or rng.chance(0.5)]
        if pick:
            levels[k]['prefix_bindings'] = [rng.pick(pick)]
            spare = [n for n in spare if n not in levels[k]['prefix_bindings']]
    if opts.get('siblings', True) and rng.chance(0.35):
        # earlier sibling routes (or an embedded sibling application) with middlewares of their own
        sibs = []
        for i in range(rng.randint(1, 2)):
            smws = []
            for j in range(rng.randint(1, 2)):
                mid = 's%d_%d' % (i, j)
                phases = [ph for ph in ('request', 'endpoint', 'render') if rng.chance(0.6)] or ['request']
                m = {'mid': mid, 'type': 'S%d_%d' % (i, j), 'unique': True, 'reorderable': True, 'request': None, 'endpoint': None,
                     'render': None, 'provides': [], 'endpoint_provides': [], 'render_provides': []}
                for ph in phases:
                    m[ph] = {'fid': '%s.%s' % (mid, ph), 'form': 'function', 'params': [['next', 'req']]}
                smws.append(m)
            sibs.append({'mws': smws, 'embedded': rng.chance(0.4)})
        # a sibling's middleware may provide a name that functions of the real route merely mention (a defaulted parameter
        # nobody on the real route's own stack offers): what a sibling's middleware offers stays with the sibling
        pbs_all = set(b for l in levels for b in l.get('prefix_bindings') or [])
        free = sorted(n for n in mentioned if n in NAMES and n not in used and n not in pbs_all)
        rng.shuffle(free)
        for sb in sibs:
            if free and rng.chance(0.6):
                m = sb['mws'][0]
                if m['request'] is None:
                    m['request'] = {'fid': '%s.request' % m['mid'], 'form': 'function', 'params': [['next', 'req']]}
                m['provides'] = [free.pop()]
                route['sibling_provides'] = True
        route['siblings'] = sibs
    if opts.get('decoys', False) and rng.chance(0.6):
        # names the real route may receive from route-level sources (or defaults), never from a level:
        # a decoy route binding such a name from the URL must not leak it
        level_names = set(x for l in level_res for x in l) | set(n for m in mws if m.get('_where', 0) is not None for n in ())
        lv_prov = set(n for l in levels for m in l['mws'] for a in ('provides', 'endpoint_provides', 'render_provides') for n in m[a])
        pbs = set(b for l in levels for b in l.get('prefix_bindings') or [])
        cands = [n for n in NAMES if n not in bindings and n not in level_names and n not in lv_prov and n not in pbs]
        rng.shuffle(cands)
        # a decoy that declines with a non-breaking error is executed with the level middlewares, whose spies
        # would log it: only used when no level has middlewares; otherwise the decoy is skipped by method
        kinds = ['method', 'nb'] if not any(l['mws'] for l in levels) else ['method']
        route['decoys'] = [{'name': n, 'kind': rng.pick(kinds)} for n in cands[:rng.randint(1, 2)]]
    return cfg


# ---- the exhaustive small core ---------------------------------------------------------------

CORE_KINDS = [None, 'req', 'def', 'kwreq', 'kwdef']


def core_configs(names=('a', 'b'), index=0, of=1):
    """One application-level middleware with a request function, an endpoint, both over `names`,
    every kind per name; provides, resources and URL bindings every subset.  Enumerated lazily and
    sliced by (index, of)."""
    names = list(names)
    subsets = [list(c) for r in range(len(names) + 1) for c in itertools.combinations(names, r)]
    kinds = list(itertools.product(CORE_KINDS, repeat=len(names)))
    n = 0
    for mwk in kinds:
        for prov in subsets:
            for epk in kinds:
                for res in subsets:
                    for bind in subsets:
                        n += 1
                        if (n - 1) % of != index:
                            continue
                        mw = {'mid': 'm0', 'type': 'T0', 'unique': True, 'reorderable': True,
                              'request': {'fid': 'm0.request', 'form': 'function',
                                          'params': [['next', 'req']] + [[nm, k] for nm, k in zip(names, mwk) if k]},
                              'endpoint': None, 'render': None,
                              'provides': prov, 'endpoint_provides': [], 'render_provides': []}
                        ep = {'fid': 'ep', 'form': 'function', 'params': [[nm, k] for nm, k in zip(names, epk) if k]}
                        rn = {'fid': 'rn', 'form': 'function', 'params': [['context', 'req']]}
                        yield {'levels': [{'mws': [mw], 'resources': res, 'prefix': '/p0'}],
                               'route': {'bindings': bind, 'mws': [], 'resources': [], 'endpoint': ep,
                                         'render': rn, 'methods': None},
                               'beh': {}}


def core_configs_route_mw(names=('a', 'b'), index=0, of=1):
    """Same core with the middleware at route level and an endpoint-phase function, render taking
    the names instead of the endpoint (covers the endpoint/render visibility rules)."""
    names = list(names)
    subsets = [list(c) for r in range(len(names) + 1) for c in itertools.combinations(names, r)]
    kinds = list(itertools.product(CORE_KINDS, repeat=len(names)))
    n = 0
    for phase, attr in (('endpoint', 'endpoint_provides'), ('render', 'render_provides'), ('request', 'provides')):
        for prov in subsets:
            for epk in kinds:
                for rnk in kinds:
                    for res in subsets[:2] + subsets[-1:]:
                        n += 1
                        if (n - 1) % of != index:
                            continue
                        mw = {'mid': 'm0', 'type': 'T0', 'unique': True, 'reorderable': True,
                              'request': None, 'endpoint': None, 'render': None,
                              'provides': [], 'endpoint_provides': [], 'render_provides': []}
                        mw[phase] = {'fid': 'm0.' + phase, 'form': 'method', 'params': [['next', 'req']]}
                        mw[attr] = prov
                        ep = {'fid': 'ep', 'form': 'function', 'params': [[nm, k] for nm, k in zip(names, epk) if k]}
                        rn = {'fid': 'rn', 'form': 'function',
                              'params': [['context', 'req']] + [[nm, k] for nm, k in zip(names, rnk) if k]}
                        yield {'levels': [{'mws': [], 'resources': res, 'prefix': '/p0'}],
                               'route': {'bindings': [], 'mws': [mw], 'resources': [], 'endpoint': ep,
                                         'render': rn, 'methods': None},
                               'beh': {}}


def core_pairs(index=0, of=1):
    """Two functions sharing the name 'a' (every kind x kind), in the same chain or across
    chains, the first one's middleware providing 'a' or not, 'a' a resource or not, a URL binding
    or not, middlewares at application or route level."""
    n = 0
    chains = [('request', 'request'), ('endpoint', 'ep'), ('render', 'rn'), ('request', 'ep'),
              ('request', 'rn'), ('endpoint', 'rn'), ('endpoint', 'endpoint'), ('render', 'render')]
    for first, second in chains:
        for k1 in CORE_KINDS:
            for k2 in CORE_KINDS:
                for prov in (False, True):
                    for res in (False, True):
                        for bind in (False, True):
                            for where in ('app', 'route'):
                                n += 1
                                if (n - 1) % of != index:
                                    continue
                                attr = {'request': 'provides', 'endpoint': 'endpoint_provides', 'render': 'render_provides'}
                                m0 = {'mid': 'm0', 'type': 'T0', 'unique': True, 'reorderable': True, 'request': None,
                                      'endpoint': None, 'render': None, 'provides': [], 'endpoint_provides': [],
                                      'render_provides': []}
                                m0[first] = {'fid': 'm0.' + first, 'form': 'method',
                                             'params': [['next', 'req']] + ([['a', k1]] if k1 else [])}
                                if prov:
                                    m0[attr[first]] = ['a']
                                mws = [m0]
                                ep = {'fid': 'ep', 'form': 'function', 'params': []}
                                rn = {'fid': 'rn', 'form': 'function', 'params': [['context', 'req']]}
                                if second == 'ep':
                                    ep['params'] = [['a', k2]] if k2 else []
                                elif second == 'rn':
                                    rn['params'] = [['context', 'req']] + ([['a', k2]] if k2 else [])
                                else:
                                    m1 = {'mid': 'm1', 'type': 'T1', 'unique': True, 'reorderable': True, 'request': None,
                                          'endpoint': None, 'render': None, 'provides': [], 'endpoint_provides': [],
                                          'render_provides': []}
                                    m1[second] = {'fid': 'm1.' + second, 'form': 'function',
                                                  'params': [['next', 'req']] + ([['a', k2]] if k2 else [])}
                                    mws.append(m1)
                                yield {'levels': [{'mws': mws if where == 'app' else [], 'resources': ['a'] if res else [],
                                                   'prefix': '/p0'}],
                                       'route': {'bindings': ['a'] if bind else [], 'mws': mws if where == 'route' else [],
                                                 'resources': [], 'endpoint': ep, 'render': rn, 'methods': None},
                                       'beh': {}}


def fix_all(cfg):
    """re-normalise every signature of a configuration after editing it"""
    fs = [cfg['route']['endpoint'], cfg['route'].get('render')]
    for m in [m for l in cfg['levels'] for m in l['mws']] + cfg['route']['mws']:
        fs += [m.get('request'), m.get('endpoint'), m.get('render')]
    for f in fs:
        if f:
            f['params'] = [list(p) for p in fix_kinds([tuple(p) for p in f['params']])]
