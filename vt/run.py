# -*- coding: utf-8 -*-
"""Runner: ./check <ID> quick|thorough   |   ./check <ID> --replay <file>

Fans a check's shards out to worker subprocesses (one interpreter per shard, own
PYTHONHASHSEED, own watchdog), merges what the monitors observed, applies the
known-findings file, writes the evidence file and decides the three-valued verdict:

  exit 0  held on everything explored            (KNOWN-FINDING lines possible)
  exit 1  VIOLATION property=<id> replay=<path>  (a violation not listed as known)
  exit 2  INCONCLUSIVE property=<id> reason=...  (a deciding monitor never fired, a worker
                                                  crashed or hit its watchdog)
"""
import os
import sys
import json
import time
import shutil
import pickle
import hashlib
import tempfile
import importlib
import subprocess
import collections
from concurrent.futures import ThreadPoolExecutor

from .common import VERIF, REPO, DEPS, PY, jsonable, setup_paths

KNOWN_FILE = os.path.join(VERIF, 'known_findings.json')
EVIDENCE_DIR = os.path.join(VERIF, 'evidence')
if os.environ.get('VERIF_REPO') and os.path.realpath(os.environ['VERIF_REPO']) != os.path.realpath('/repo'):
    # a run against a scratch copy (self-test with a seeded change): its evidence never replaces that of /repo
    EVIDENCE_DIR = os.path.join(VERIF, '.scratch', 'evidence')
REPLAY_DIR = os.path.join(VERIF, 'replays')
EVIDENCE_SCHEMA = '/root/.vp/EVIDENCE.schema.json'
JOBS = int(os.environ.get('VERIF_JOBS', '16'))


def ensure_deps():
    if not (os.path.isdir(os.path.join(DEPS, 'icontract')) and
            os.path.isdir(os.path.join(DEPS, 'jsonschema'))):
        subprocess.run([os.path.join(VERIF, 'setup.sh')], check=False,
                       stdout=subprocess.DEVNULL)


def tree_identity():
    def git(*a):
        try:
            return subprocess.run(('git', '-C', REPO) + a, capture_output=True, timeout=30).stdout
        except Exception:
            return b''
    head = git('rev-parse', 'HEAD').decode().strip()
    diff = git('diff', 'HEAD')
    return {'repo': REPO, 'head': head,
            'dirty_diff_sha1': hashlib.sha1(diff).hexdigest() if diff.strip() else None}


def load_known(prop):
    try:
        with open(KNOWN_FILE) as f:
            data = json.load(f)
    except Exception:
        return {}, {}
    known, fixed = {}, {}
    for e in data.get('findings', []):
        if e.get('property') != prop:
            continue
        (known if e.get('status') == 'known' else fixed)[e['key']] = e
    return known, fixed


def worker_env(spec):
    env = dict(os.environ)
    env['PYTHONHASHSEED'] = str(spec.get('hashseed', 0))
    env['PYTHONPATH'] = os.pathsep.join([REPO, VERIF])
    env['PYTHONDONTWRITEBYTECODE'] = '1'
    env['VERIF_REPO'] = REPO
    env.setdefault('CLASTIC_VERIF', '1')
    env.pop('PYTHONWARNINGS', None)
    return env


def run_one(prop, spec, scratch, idx):
    specfile = os.path.join(scratch, 'spec%d.json' % idx)
    outfile = os.path.join(scratch, 'out%d.pkl' % idx)
    with open(specfile, 'w') as f:
        json.dump(spec, f)
    timeout = spec.get('timeout', 1800)
    cmd = [PY, '-B', '-m', 'vt.worker', prop, specfile, outfile]
    t0 = time.time()
    try:
        p = subprocess.run(cmd, env=worker_env(spec), cwd=VERIF, capture_output=True,
                           timeout=timeout)
    except subprocess.TimeoutExpired as te:
        return {'failed': 'watchdog fired after %ss on shard %r' % (timeout, spec.get('label', idx)),
                'stderr': (te.stderr or b'')[-3000:].decode('utf8', 'replace')}
    wall = time.time() - t0
    if p.returncode != 0 or not os.path.exists(outfile):
        return {'failed': 'worker for shard %r exited %s' % (spec.get('label', idx), p.returncode),
                'stderr': p.stderr[-4000:].decode('utf8', 'replace')}
    with open(outfile, 'rb') as f:
        res = pickle.load(f)
    os.unlink(outfile)
    res['wall'] = wall
    res['label'] = spec.get('label', idx)
    res['hashseed'] = spec.get('hashseed', 0)
    return res


def merge(results):
    m = {'evaluations': 0, 'distinct': set(), 'enumerated_distinct': 0,
         'counters': collections.Counter(), 'samples': collections.OrderedDict(),
         'violations': [], 'violation_counts': collections.Counter(), 'notes': {},
         'sets': collections.defaultdict(set), 'failed': [], 'shards': []}
    for r in results:
        if 'failed' in r:
            m['failed'].append(r)
            continue
        m['evaluations'] += r['evaluations']
        m['distinct'] |= r['distinct']
        m['enumerated_distinct'] += r['enumerated_distinct']
        m['counters'].update(r['counters'])
        for k, v in r['samples'].items():
            if k not in m['samples'] and len(m['samples']) < 12:
                m['samples'][k] = v
        m['violations'].extend(r['violations'])
        m['violation_counts'].update(r['violation_counts'])
        for k, v in r['notes'].items():
            m['notes'].setdefault(k, v)
        for k, v in r['sets'].items():
            m['sets'][k].update(v)
        m['shards'].append({'label': r['label'], 'hashseed': r['hashseed'],
                            'wall_s': round(r['wall'], 2), 'evaluations': r['evaluations']})
    return m


def write_evidence(prop, tier, seed, mod, m, wall, n_viol, known_hit, inconclusive):
    os.makedirs(EVIDENCE_DIR, exist_ok=True)
    distinct = len(m['distinct']) + m['enumerated_distinct']
    samples = [{'class': k, 'case': v} for k, v in m['samples'].items()]
    cov = {
        'evaluations': int(m['evaluations']),
        'distinct_nontrivial': int(distinct),
        'rule': getattr(mod, 'RULE', ''),
        'samples': samples,
        'reach_counters': {k: int(v) for k, v in sorted(m['counters'].items())
                           if not k.startswith('class:')},
        'case_classes': {k[6:]: int(v) for k, v in sorted(m['counters'].items())
                         if k.startswith('class:')},
        'observed_sets': {k: {'size': len(v), 'members': sorted(v, key=repr)[:40]}
                          for k, v in m['sets'].items()},
        'notes': m['notes'],
        'shards': m['shards'],
        'hash_seeds': sorted({s['hashseed'] for s in m['shards']}),
        'tree': tree_identity(),
        'known_findings_reproduced': known_hit,
        'inconclusive': inconclusive,
        'failed_shards': [f['failed'] for f in m['failed']],
    }
    if getattr(mod, 'EXHAUSTIVE', {}).get(tier):
        cov['exhaustive'] = True
        cov['exhaustive_part'] = mod.EXHAUSTIVE[tier]
    ev = {
        'property_id': prop,
        'tier': tier,
        'seed': int(seed),
        'level': getattr(mod, 'LEVEL', 'exploration'),
        'coverage': cov,
        'assumptions': list(getattr(mod, 'ASSUMPTIONS', [])),
        'wall_s': round(wall, 2),
        'violations': int(n_viol),
    }
    ev = jsonable(ev)
    path = os.path.join(EVIDENCE_DIR, prop + '.json')
    try:
        setup_paths()
        import jsonschema
        with open(EVIDENCE_SCHEMA) as f:
            jsonschema.validate(ev, json.load(f))
    except ImportError:
        pass
    except FileNotFoundError:
        pass
    except Exception as e:   # schema violation: say so loudly, still write the file
        print('EVIDENCE-SCHEMA-PROBLEM property=%s %s' % (prop, str(e).splitlines()[0]))
    with open(path, 'w') as f:
        json.dump(ev, f, indent=1, sort_keys=True)
    return path


def main(argv):
    for stream in (sys.stdout, sys.stderr):
        try:
            stream.reconfigure(errors='backslashreplace')
        except Exception:
            pass
    if len(argv) < 2:
        print(__doc__)
        return 64
    prop = argv[0]
    ensure_deps()
    mod = importlib.import_module('vt.checks.' + prop)
    seed = int(os.environ.get('VERIF_SEED', '0') or 0)

    if argv[1] == '--replay':
        with open(argv[2]) as f:
            rep = json.load(f)
        spec = {'mode': 'replay', 'case': rep['case'], 'key': rep.get('key'),
                'hashseed': rep.get('hashseed', 0), 'label': 'replay', 'seed': rep.get('seed', 0),
                'timeout': 600}
        tier, plan = 'replay', [spec]
    else:
        tier = argv[1]
        if tier not in ('quick', 'thorough'):
            print('tier must be quick or thorough')
            return 64
        plan = mod.plan(tier, seed)
        for s in plan:
            s.setdefault('seed', seed)
            s.setdefault('tier', tier)

    t0 = time.time()
    scratch = tempfile.mkdtemp(prefix='verif-%s-' % prop)
    try:
        with ThreadPoolExecutor(max_workers=JOBS) as ex:
            results = list(ex.map(lambda a: run_one(prop, a[1], scratch, a[0]), enumerate(plan)))
    finally:
        shutil.rmtree(scratch, ignore_errors=True)
    m = merge(results)
    if hasattr(mod, 'finalize'):
        mod.finalize(m, tier)
    wall = time.time() - t0

    known, fixed = load_known(prop)
    known_hit, real = collections.OrderedDict(), []
    for v in m['violations']:
        if v['key'] in known:
            known_hit.setdefault(v['key'], known[v['key']].get('what', v['what']))
        else:
            real.append(v)
    for k in m['violation_counts']:
        if k in known:
            known_hit.setdefault(k, known[k].get('what', k))
    n_real = sum(c for k, c in m['violation_counts'].items() if k not in known)

    if tier == 'replay':
        for v in m['violations']:
            print('REPRODUCED property=%s key=%s :: %s' % (prop, v['key'], v['what']))
        for k, v in m['notes'].items():
            print('note %s: %s' % (k, v))
        for f in m['failed']:
            print('worker failed: %s\n%s' % (f['failed'], f.get('stderr', '')))
        if not m['violations']:
            print('NOT-REPRODUCED property=%s' % prop)
        return 1 if real else 0

    # reach: every deciding monitor must have observed something
    inconclusive = []
    for f in m['failed']:
        inconclusive.append(f['failed'])
    required = getattr(mod, 'REQUIRED_REACH', [])
    if isinstance(required, dict):
        required = list(required.get('all', [])) + list(required.get(tier, []))
    for name in required:
        if m['counters'].get(name, 0) <= 0:
            inconclusive.append('reach counter %r is zero' % name)
    if m['evaluations'] <= 0:
        inconclusive.append('no case was evaluated')

    ev_path = write_evidence(prop, tier, seed, mod, m, wall, n_real,
                             [{'key': k, 'what': w} for k, w in known_hit.items()], inconclusive)

    print('%s %s seed=%d: %d evaluations, %d distinct non-trivial, %d shards, %.1fs'
          % (prop, tier, seed, m['evaluations'], len(m['distinct']) + m['enumerated_distinct'],
             len(m['shards']), wall))
    interesting = [(k, v) for k, v in sorted(m['counters'].items()) if not k.startswith('class:')]
    print('  observed: ' + ', '.join('%s=%d' % kv for kv in interesting[:60]))
    for k, w in known_hit.items():
        print('KNOWN-FINDING: property=%s %s [%s x%d]' % (prop, w, k, m['violation_counts'].get(k, 0)))

    if real:
        os.makedirs(REPLAY_DIR, exist_ok=True)
        seen_keys = collections.Counter()
        for v in real:
            seen_keys[v['key']] += 1
            if seen_keys[v['key']] > 3:
                continue
            n = 0
            while os.path.exists(os.path.join(REPLAY_DIR, '%s-%d.json' % (prop, n))):
                n += 1
            path = os.path.join(REPLAY_DIR, '%s-%d.json' % (prop, n))
            with open(path, 'w') as f:
                json.dump({'property': prop, 'key': v['key'], 'what': v['what'], 'case': v['case'],
                           'seed': seed, 'tier': tier, 'hashseed': 0}, f, indent=1, sort_keys=True)
            print('  [%s x%d] %s' % (v['key'], m['violation_counts'].get(v['key'], 1), v['what'][:600]))
            print('VIOLATION property=%s replay=%s' % (prop, path))
        return 1
    if inconclusive:
        for f in m['failed']:
            sys.stderr.write('--- %s\n%s\n' % (f['failed'], f.get('stderr', '')))
        print('INCONCLUSIVE property=%s reason=%s' % (prop, '; '.join(inconclusive)[:1500]))
        return 2
    print('HELD property=%s on everything explored (evidence: %s)' % (prop, ev_path))
    return 0


if __name__ == '__main__':
    sys.exit(main(sys.argv[1:]))
