# -*- coding: utf-8 -*-
"""C17 - the basic and JSON renderers accept every endpoint result.

Monitor: status, Content-Type and parsed body of responses rendered - through real routes - from
generated endpoint results (a fresh value per render: the third-party table builder mutates its
input, O10)."""
import json
import datetime
from html.parser import HTMLParser

from ..common import Rng
from .. import probe

PROPERTY = 'C17'
LEVEL = 'exploration'
RULE = ('cases are (renderer, endpoint result, request): render_basic / render_json / render_json_dev / streaming JSON / JSONP over '
        'values from {str, bytes, int, float, bool, None, nested dict/list/tuple/set, datetime/date, objects with to_dict / asdict / '
        'isoformat, plain objects, generators, Response}; text classes JSON-like, HTML-like, plain, empty, non-ASCII; format in '
        '{absent, json, html}; Accept absent / exact / wildcard; a case is non-trivial when the value is not a plain ASCII string; '
        'distinct by hash of (renderer, value repr, request)')
ASSUMPTIONS = ['labels are demanded for clear-cut text only: valid JSON object/array without surrounding whitespace -> application/json; '
               'a document starting with a doctype or <html -> text/html; text that neither starts with { or [ nor contains "<html" -> text/plain',
               'an Accept header with wildcards does not decide between JSON and HTML (O6)',
               'HTML tables are demanded for tabular shapes only (O10); mappings have string keys (or keys of one type)',
               'JSON round trips exclude NaN/Infinity, non-string keys and lone surrogates']
REQUIRED_REACH = ['json:collection-or-convertible-in-any-mode', 'rendered-on-another-thread', 'basic:text-json', 'basic:text-html', 'basic:text-plain', 'basic:bytes', 'basic:scalar', 'basic:None',
                  'basic:object', 'basic:generator', 'basic:mapping-json', 'basic:sequence-json', 'basic:table', 'basic:set',
                  'basic:response-passthrough', 'json:roundtrip', 'json-dev:repr-fallback', 'json:streaming', 'jsonp:callback',
                  'jsonp:no-callback', 'label:application/json', 'label:text/html', 'label:text/plain']
NSHARDS = 16


class WithToDict(object):
    def __init__(self, d):
        self.d = d

    def to_dict(self):
        return self.d


class WithAsDict(object):
    def __init__(self, d):
        self.d = d

    def asdict(self):
        return self.d


class Plain(object):
    def __init__(self, tag):
        self.tag = tag

    def __repr__(self):
        return '<Plain %s>' % self.tag


TEXTS_PLAIN = ['hello', '', 'plain text with spaces', 'caf\xe9 ☃ 日本', 'a\nb\nc', 'x' * 5000, 'null', '42', 'true', '"quoted"',
               'key: value', 'not {json}', 'a < b & c > d', 'ends with }', 'tab\tsep', '\x00\x01\x7f',
               ' ', '\n', ' \t\r\n ', '\r\n', '\x0b\x0c', '\u00a0', '\u2028', ' x ', '\n\nx',
               # JSON padded with characters that are blank to Python's str.strip() but are not JSON whitespace: not JSON, other text
               '\u00a0{"a": 1}', '[1, 2, 3]\u2028', '\x1f{"a": 1}', '{"a": 1}\u3000', '\u2003[1, 2]\u2003', '\x1c[]\x1d', '\u0085{}', '{"k": [1]}\ufeff']
TEXTS_HTML = ['<!-- generated 2024-01-01 -->\n<html><body>hi</body></html>', '\ufeff<html><body>bom</body></html>',
              '<?xml version="1.0" encoding="UTF-8"?>\n<!DOCTYPE html>\n<html><body>x</body></html>', 'Report follows:\n<html><body>r</body></html>',
              '<!DOCTYPE html>\n<!-- banner -->\n<html lang="en"><body>c</body></html>', '  \n\t<html>\n</html>', '<HTML><BODY>upper</BODY></HTML>'.lower(),
              '<html><body>hi</body></html>', '<!doctype html><html><head><title>t</title></head><body>é</body></html>',
              '<!DOCTYPE html>\n<html lang="en"><body><p>x</p></body></html>', '<html>\n</html>']
# JSON text with whitespace around it is JSON text (RFC 8259: ws value ws)
TEXTS_JSON_PADDED = [' {"a": 1}', '{"a": 1}\n', '\n[1, 2, 3]\n', '\t{"k": [1, {"z": null}]}  ', '[]\r\n', '  {}']
# not JSON, and the outermost characters are not a matching pair of brackets: "other text"
TEXTS_BROKEN_JSON = ['[1, 2', '{"a": 1}]', '[INFO] reloaded config {debug: true}', '{a]', '[1, 2}', '{"a": 1]', '{"a": 1', '[[1, 2}',
                     '{x} and [y', ']', '}', '[', '{', '{"a": 1} trailing', 'leading [1]x', '[warn] disk 91% {sda1}\n']
# not JSON but wrapped in a matching pair of brackets: _guess_json looks at the outermost characters only (known finding)
TEXTS_BRACKETED = ['{oops}', '[not json]', '{}x{}', '[]]', '[INFO] started [ok]', '{{template}}', '{a: 1}', "{'a': 1}", '[1, 2,]', ' {oops} ']
# left to the implementation: a byte-order mark before JSON (RFC 8259 lets parsers choose), markup far from the start
TEXTS_DONTCARE = ['\ufeff{"a": 1}', 'text then <html> later ' + 'x' * 300 + '<html>']


def is_json_container_text(text):
    try:
        return isinstance(json.loads(text), (dict, list))
    except ValueError:
        return False


def json_native(rng, depth=0):
    if depth == 0 and rng.chance(0.08):
        # large payloads (several buffers' worth when streamed)
        return rng.pick([list(range(rng.randint(700, 3000))),
                         [{'id': i, 'name': 'record %d' % i, 'tags': ['a', 'b']} for i in range(rng.randint(40, 200))],
                         dict(('key%04d' % i, i) for i in range(rng.randint(250, 900))), 'x' * rng.randint(4097, 20000),
                         {'blob': 'y' * 5000, 'after': [1, 2, 3]}])
    r = rng.randrange(11)
    if r == 0:
        return None
    if r == 1:
        return rng.randint(-10 ** 15, 10 ** 15)
    if r == 2:
        return rng.pick([0.5, -1.25, 1e-9, 3.141592653589793, 1e300, 0.1 + 0.2, -0.0])
    if r == 3:
        return rng.chance(0.5)
    if r in (4, 5):
        return rng.pick(['', 's', 'caf\xe9', '☃ 日本', 'Zoe\u0308', '\u212b\u2126\u212a', '\uf900 \ufb01', '\u1112\u1161\u11ab', 'q\u0323\u0307', '\U0001f600', 'with "quotes" and \\ backslash', '</script>', 'line\nbreak', '\x00\x1f', 'a' * 200,
                         # text that looks like JSON's own vocabulary
                         'Avengers: Infinity War', 'got NaN (line 3)', 'x = -Infinity;', 'NaN', 'null', 'true', 'a: null, b: true', '[1, 2]',
                         '{"k": 1}', '\\u0041', '\\n', 'tab\there', '/* comment */', '1e5', '// x'])
    if r in (6, 7) and depth < 3:
        return [json_native(rng, depth + 1) for _ in range(rng.randint(0, 4))]
    if r in (8, 9) and depth < 3:
        return dict((rng.pick(['a', 'b', 'key', 'é', 'e\u0301', '\u212b', '\u00c5', '', 'a b', 'z' * 20, '1', 'is NaN ok', 'to Infinity and', 'null', '"q"']), json_native(rng, depth + 1)) for _ in range(rng.randint(0, 4)))
    return rng.pick(['x', 'y'])


def exotic(rng, depth=0):
    """values beyond JSON-native: -> (value factory result, jsonable expectation or None)"""
    r = rng.randrange(11)
    if r >= 9:
        # collections that are not JSON-native but are collections all the same - sized, iterable, mappings - also when
        # they are empty: every JSON renderer (dev or not) writes them as arrays / objects
        import collections
        return rng.pick([(set(), []), (frozenset(), []), (collections.deque(), []), (range(0), []), (collections.UserDict(), {}),
                         (collections.UserList(), []), ({'inner': set()}, {'inner': []}), ([set(), 3], [[], 3]),
                         ({'a': collections.deque(), 'b': frozenset()}, {'a': [], 'b': []}), (collections.OrderedDict(), {}),
                         (collections.deque([1, 'two']), [1, 'two']), (range(3), [0, 1, 2]), (collections.UserDict({'k': [1]}), {'k': [1]}),
                         ({'r': range(2), 'e': range(0)}, {'r': [0, 1], 'e': []}), (set([7]), [7]), ([[], {}, (), set()], [[], {}, [], []]),
                         (collections.ChainMap(), {}), (collections.Counter(), {}), (collections.Counter('aab'), {'a': 2, 'b': 1})])
    if r == 0:
        # tuples are sequences - also short ones whose second member happens to look like a status code
        return rng.pick([((1, 2, 'three'), [1, 2, 'three']), ((7, 200), [7, 200]), (('not found', 404), ['not found', 404]),
                         (({'id': 5, 'tags': ['x']}, 301), [{'id': 5, 'tags': ['x']}, 301]), (([1, 2, 3], 100), [[1, 2, 3], 100]),
                         ((None, 599), [None, 599]), (('apples', 3), ['apples', 3]), (('a', 7, None), ['a', 7, None])])
    if r == 1:
        # sets, incl. members that cannot be ordered against each other
        v = rng.pick([set([1, 2, 3]), set(['a']), set(), set([1, 'a']), set([None, 'x', 'y']), frozenset([(1, 2), 7]),
                      {'inner': set([2.5, 'b', None])}, [set([1, 'z']), 3]])
        return v, None
    if r == 2:
        d = datetime.datetime(2020, 1, 2, 3, 4, 5)
        return {'when': d}, {'when': d.isoformat()}
    if r == 3:
        return {'obj': WithToDict({'k': 1})}, {'obj': {'k': 1}}
    if r == 4:
        return [WithAsDict({'q': [1, 2]})], [{'q': [1, 2]}]
    if r == 5:
        return {'d': datetime.date(1999, 12, 31)}, {'d': '1999-12-31'}
    if r == 6:
        return {'p': Plain('x')}, {'p': '<Plain x>'}
    if r == 7:
        return frozenset(['only']), ['only']
    # bytes inside containers: any octets, not only UTF-8 text
    raw = rng.pick([b'raw', b'', b'\xff\xfe\x00', 'caf\xe9'.encode('latin-1'), bytes(range(120, 140)), b'\x89PNG\r\n\x1a\n', bytearray(b'\xc3\x28'),
                    b'\x80' * 40])
    return rng.pick([{'bytes': raw, 'n': 1}, [raw, 'text'], {'nested': {'digest': raw}}, [[raw]], (raw,)]), None


class Tok(HTMLParser):
    def __init__(self):
        HTMLParser.__init__(self, convert_charrefs=True)
        self.tags, self.text = [], []
        self.cells, self._cell = [], None        # the text of every table cell (td / th), one entry per cell

    def handle_starttag(self, tag, attrs):
        self.tags.append(tag)
        if tag in ('td', 'th'):
            self._cell = []

    def handle_endtag(self, tag):
        if tag in ('td', 'th') and self._cell is not None:
            self.cells.append(''.join(self._cell))
            self._cell = None

    def handle_data(self, d):
        self.text.append(d)
        if self._cell is not None:
            self._cell.append(d)


_state = {'value': None}


def ep():
    v = _state['value']
    return v() if callable(v) and getattr(v, '_factory', False) else v


_apps = {}


def apps():
    if not _apps:
        from clastic import Application, Route, render_basic, render_json, render_json_dev
        from clastic.render.simple import JSONRender, JSONPRender
        _apps['app'] = Application([Route('/basic', ep, render_basic), Route('/json', ep, render_json),
                                    Route('/jsondev', ep, render_json_dev), Route('/stream', ep, JSONRender(streaming=True)),
                                    Route('/streamdev', ep, JSONRender(streaming=True, dev_mode=True)),
                                    Route('/latin1', ep, JSONRender(encoding='latin-1')),
                                    Route('/jsonp', ep, JSONPRender()), Route('/jsonp2', ep, JSONPRender(qp_name='cb', dev_mode=True))])
    return _apps['app']


def render(path, value, query='', accept=None):
    _state['value'] = value
    h = {}
    if accept is not None:
        h['Accept'] = accept
    ex = probe.request(apps(), 'GET', path, query, headers=h)
    _state['value'] = None
    return ex


def mime(ex):
    return (ex.header('Content-Type') or '').split(';')[0].strip().lower()


def short(v):
    r = repr(v)
    return r if len(r) < 300 else r[:300] + '...'


def judge_basic_text(sh, rng):
    klass = rng.pick(['json', 'json', 'html', 'plain', 'json-padded', 'broken-json', 'bracketed', 'dontcare', 'json-extreme'])
    as_bytes = rng.chance(0.3)
    if klass == 'json':
        text = json.dumps(rng.pick([json_native(rng), {'a': json_native(rng)}, [json_native(rng)]]) if rng.chance(0.8) else rng.pick([{}, []]),
                          ensure_ascii=rng.chance(0.5), indent=rng.pick([None, 2]))
        if rng.chance(0.15):
            text = json.dumps({'big': list(range(rng.randint(600, 3000))), 'pad': 'p' * rng.randint(0, 5000)})
        elif rng.chance(0.15):
            # JSON whose strings look like markup: still a serialized JSON object/array
            text = json.dumps(rng.pick([{'page': '<!doctype html><html><body>x</body></html>'}, ['<html>', 1], {'<html': None},
                                        {'a': '</html>', 'b': '<html lang="en">'}]))
        if not text or text[0] not in '{[':
            text = json.dumps({'v': json.loads(text)})
        want = 'application/json'
    elif klass == 'html':
        text, want = rng.pick(TEXTS_HTML), 'text/html'
    elif klass == 'plain':
        text, want = rng.pick(TEXTS_PLAIN), 'text/plain'
    elif klass == 'json-extreme':
        # serialized JSON that a parser with resource limits chokes on (recursion depth, CPython's int digit limit): it
        # is JSON by its grammar all the same, and rendering it is copying bytes
        depth, digits = rng.pick([1500, 5000, 20000]), rng.pick([4301, 5000, 12000])
        text = rng.pick(['[' * depth + ']' * depth, '{"a":' * depth + '1' + '}' * depth, '[' + '7' * digits + ']',
                         '{"n": -' + '9' * digits + ', "s": "x"}', '[1e' + '9' * 400 + ']'])
        want = 'application/json'
    elif klass == 'json-padded':
        text, want = rng.pick(TEXTS_JSON_PADDED), 'application/json'
        if rng.chance(0.4):
            text = rng.pick(['', ' ', '\n', '\r\n\t']) + json.dumps(json_native(rng, 1) if rng.chance(0.5) else {'a': [1, 2]}, indent=rng.pick([None, 1])) + rng.pick(['\n', ' ', '\n\n'])
            if text.strip()[:1] not in ('{', '['):
                text = ' [' + text.strip() + ']\n'
    elif klass == 'broken-json':
        text, want = rng.pick(TEXTS_BROKEN_JSON), 'text/plain'
        if rng.chance(0.4):
            # a JSON document with its closing bracket swapped or cut
            good = json.dumps(rng.pick([{'a': json_native(rng, 1)}, [json_native(rng, 1), 1]]))
            text = rng.pick([good[:-1] + ('}' if good[-1] == ']' else ']'), good[:-1], good + 'x', 'x' + good])
            if '<html' in text:
                text = '[1, 2}'
            if text.strip()[:1] + text.strip()[-1:] in ('{}', '[]'):
                klass = 'bracketed'
    elif klass == 'bracketed':
        text, want = rng.pick(TEXTS_BRACKETED), 'text/plain'
    else:
        text, want = rng.pick(TEXTS_DONTCARE), None
    if klass == 'json-extreme':
        sh.hit('basic:text-json-extreme')
    assert klass not in ('json', 'json-padded') or is_json_container_text(text), text
    assert klass not in ('broken-json', 'bracketed') or not is_json_container_text(text), text
    value = text.encode('utf8') if as_bytes else text
    query = rng.pick(['', '', 'format=json', 'format=html'])
    accept = rng.pick([None, None, 'text/html', 'application/json', '*/*'])
    ex = render('/basic', value, query, accept)
    case = {'renderer': 'basic', 'value': short(value), 'query': query, 'accept': accept}
    sh.case(case, nontrivial=klass != 'plain' or not text.isascii(), klass='basic-text:' + klass, sample=dict(case, status=ex.status, ctype=mime(ex)))
    sh.hit('basic:bytes' if as_bytes else 'basic:text-' + {'dontcare': 'plain', 'json-padded': 'json', 'bracketed': 'plain', 'json-extreme': 'json'}.get(klass, klass))
    sh.hit('basic:text-class-' + klass)
    if ex.exc is not None or ex.status != 200:
        sh.violation('C17/basic-not-200:text', 'render_basic(%s) -> status %s %s %r' % (short(value), ex.status, probe.safe_repr(ex.exc) if ex.exc else '', ex.body[:160]), case)
        return
    if ex.body != text.encode('utf8'):
        sh.violation('C17/basic-text-altered', 'render_basic(%s) changed the text: %r' % (short(value), ex.body[:120]), case)
        return
    sh.hit('label:' + mime(ex))
    if klass == 'bracketed' and mime(ex) == 'application/json':
        # the known limit of the guess: only the outermost characters are looked at
        sh.violation('C17/bracketed-non-json-text-labelled-json', 'render_basic(%s) labelled application/json although the text does not parse as JSON' % short(value), case)
        return
    if want and mime(ex) != want:
        sh.violation('C17/basic-text-mislabelled:%s-as-%s' % (klass, mime(ex)), 'render_basic(%s) labelled %s, expected %s' % (short(value), mime(ex), want), case)


def judge_basic_scalar(sh, rng):
    kind = rng.pick(['int', 'float', 'bool', 'None', 'object', 'generator', 'response', 'datetime', 'toobj'])
    if kind == 'int':
        v = rng.pick([0, 1, -5, 10 ** 30])
    elif kind == 'float':
        v = rng.pick([0.0, 1.5, -2.25e10, float('inf'), float('nan')])
    elif kind == 'bool':
        v = rng.chance(0.5)
    elif kind == 'None':
        v = None
    elif kind == 'object':
        v = rng.pick([Plain('p'), object(), Exception('e'), len, 3 + 4j])
    elif kind == 'datetime':
        v = datetime.datetime(2021, 5, 6, 7, 8)
    elif kind == 'toobj':
        v = WithToDict({'a': 1})
    elif kind == 'generator':
        v = (i for i in range(3))
    else:
        from clastic import Response
        v = Response('direct', status=202, mimetype='text/x-direct')
    query = rng.pick(['', 'format=json', 'format=html'])
    accept = rng.pick([None, 'text/html', 'application/json', '*/*', 'image/png'])
    ex = render('/basic', v, query, accept)
    case = {'renderer': 'basic', 'value': short(v), 'kind': kind, 'query': query, 'accept': accept}
    sh.case(case, nontrivial=True, klass='basic-scalar:' + kind, sample=dict(case, status=ex.status, ctype=mime(ex), body=ex.body[:60]))
    sh.hit({'int': 'basic:scalar', 'float': 'basic:scalar', 'bool': 'basic:scalar', 'None': 'basic:None', 'object': 'basic:object',
            'datetime': 'basic:object', 'toobj': 'basic:object', 'generator': 'basic:generator', 'response': 'basic:response-passthrough'}[kind])
    if kind == 'response':
        if ex.status != 202 or ex.body != b'direct' or mime(ex) != 'text/x-direct':
            sh.violation('C17/response-not-passed-through', 'a Response returned by the endpoint came out as %s %s %r' % (ex.status, mime(ex), ex.body[:80]), case)
        return
    if ex.exc is not None or ex.status != 200:
        sh.violation('C17/basic-not-200:' + kind, 'render_basic(%s) -> status %s %s %r'
                     % (short(v), ex.status, probe.safe_repr(ex.exc) if ex.exc else '', ex.body[:200]), case)


def tabular(rng):
    shape = rng.pick(['flat-mapping', 'scalars', 'rows-of-mappings', 'rows-of-sequences', 'empty'])
    if shape == 'empty':
        # degenerate tables: nothing to show is still something to render
        return shape, rng.pick([[], (), {}, [{}], [[]], [()], [{}, {}]])
    cell = lambda: rng.pick(['x', 'a<b', 'q&r', 'caf\xe9', 7, 2.5, 'longer text here', True, '"quoted"', "it's",
                             # data that looks like something a page might want to decorate: host names, addresses, paths
                             'www.example.com', 'www.x.org/a?b=1', 'user@example.com', 'example.com/path', '#1234', '@handle'])
    if shape == 'flat-mapping':
        return shape, dict((k, cell()) for k in rng.sample(['alpha', 'beta', 'g<amma', 'd&elta', 'é'], rng.randint(1, 4)))
    if shape == 'scalars':
        return shape, [cell() for _ in range(rng.randint(1, 5))]
    if shape == 'rows-of-mappings':
        keys = rng.sample(['id', 'name', 'v<al', 'note'], rng.randint(1, 3))
        return shape, [dict((k, cell()) for k in keys) for _ in range(rng.randint(1, 4))]
    n = rng.randint(1, 3)
    return shape, [[cell() for _ in range(n)] for _ in range(rng.randint(1, 4))]


def cells_of(v):
    if isinstance(v, dict):
        for k, x in v.items():
            yield k
            for c in cells_of(x):
                yield c
    elif isinstance(v, (list, tuple)):
        for x in v:
            for c in cells_of(x):
                yield c
    else:
        yield v


def judge_basic_container(sh, rng):
    which = rng.pick(['native', 'native', 'exotic', 'tabular', 'tabular', 'intkeys'])
    expect_json = None
    if which == 'native':
        v = rng.pick([json_native(rng, 1), {'k': json_native(rng, 1)}, [json_native(rng, 1), json_native(rng, 1)]])
        if not isinstance(v, (dict, list)):
            v = [v]
        expect_json = v
        shape = None
    elif which == 'exotic':
        v, expect_json = exotic(rng)
        shape = None
    elif which == 'intkeys':
        v = dict((i, 'v%d' % i) for i in range(rng.randint(1, 4)))
        shape = None
    else:
        shape, v = tabular(rng)
        expect_json = v
    fresh = json.loads(json.dumps(v)) if which in ('native', 'tabular') else v
    wants_html = False
    if which == 'tabular':
        query, accept = rng.pick([('format=html', None), ('', 'text/html'), ('format=html', 'application/json'), ('', None),
                                  ('format=json', 'text/html'), ('', 'application/json'), ('', '*/*'),
                                  # nobody asks for HTML here: refused, or merely related types
                                  ('', 'text/html;q=0'), ('', 'text/html;q=0, application/json;q=0'), ('', 'application/xml'),
                                  ('', 'application/xml, image/png;q=0.5'), ('', 'application/xhtml+xml'), ('', 'text/plain'),
                                  ('', 'text/html;q=0, */*;q=0.1'), ('', 'image/png'),
                                  ('', 'text/html;q=0.9, application/json;q=0.1')])
        wants_html = ('format=html' in query) or (query == '' and accept in ('text/html', 'text/html;q=0.9, application/json;q=0.1'))
        undecided = query == '' and accept == '*/*'
    else:
        query, accept = rng.pick([('', None), ('format=json', None), ('', 'application/json'), ('format=json', 'text/html')])
        undecided = False
    ex = render('/basic', fresh, query, accept)
    case = {'renderer': 'basic', 'value': short(v), 'query': query, 'accept': accept, 'shape': shape}
    sh.case(case, nontrivial=True, klass='basic-container:' + (shape or which), sample=dict(case, status=ex.status, ctype=mime(ex), body=ex.body[:80]))
    if isinstance(v, (set, frozenset)):
        sh.hit('basic:set')
    if ex.exc is not None or ex.status != 200:
        sh.violation('C17/basic-not-200:container', 'render_basic(%s) [%s, Accept %r] -> status %s %s %r'
                     % (short(v), query, accept, ex.status, probe.safe_repr(ex.exc) if ex.exc else '', ex.body[:200]), case)
        return
    m = mime(ex)
    if which == 'tabular' and (wants_html or (undecided and m == 'text/html')):
        if m != 'text/html':
            sh.violation('C17/html-requested-but-not-served', 'render_basic(%s) [%s, Accept %r] -> %s' % (short(v), query, accept, m), case)
            return
        t = Tok()
        t.feed(ex.body.decode('utf8'))
        text = ''.join(t.text)
        raw = ex.body.decode('utf8').lower()
        if t.tags.count('html') != 1 or raw.count('</html>') != 1 or t.tags.count('body') > 1 or raw.rstrip().rfind('</html>') != len(raw.rstrip()) - 7:
            # one result, one document: a page that carries a second document (or anything after its end) shows something
            # that is not the table of this result
            sh.violation('C17/html-not-one-document', 'render_basic(%s) as HTML: %d <html> / %d </html> / %d <body> elements, ends %r'
                         % (short(v), t.tags.count('html'), raw.count('</html>'), t.tags.count('body'), raw.rstrip()[-30:]), case)
            return
        sh.hit('basic:table-is-one-document')
        if 'table' not in t.tags:
            sh.violation('C17/html-without-table', 'render_basic(%s) as HTML has no table element (tags %r)' % (short(v), t.tags[:12]), case)
            return
        # a cell shows its value - nothing put before or after it inside the same word
        shown = [x.strip() for x in t.cells]
        altered = [(c, [x for x in shown if c in x][:1]) for c in cells_of(v) if isinstance(c, str) and c and ' ' not in c and '.' in c and c not in shown]
        if altered and t.cells:
            sh.violation('C17/html-table-cell-altered', 'render_basic(%s) as HTML has no cell that reads %r (a cell reads %r)' % (short(v), altered[0][0], altered[0][1]), case)
            return
        if t.cells:
            sh.hit('basic:table-cells-read')
        missing = [c for c in cells_of(v) if str(c) not in text]
        if missing:
            sh.violation('C17/html-table-missing-cells', 'render_basic(%s) as HTML lacks the cell texts %r' % (short(v), missing[:4]), case)
            return
        sh.hit('basic:table')
        sh.hit('label:text/html')
        return
    if m != 'application/json':
        sh.violation('C17/container-not-json', 'render_basic(%s) [%s, Accept %r] labelled %s' % (short(v), query, accept, m), case)
        return
    try:
        data = json.loads(ex.body.decode('utf8'))
    except ValueError as e:
        sh.violation('C17/invalid-json', 'render_basic(%s) emitted invalid JSON: %s %r' % (short(v), e, ex.body[:120]), case)
        return
    sh.hit('label:application/json')
    sh.hit('basic:mapping-json' if isinstance(v, dict) else 'basic:sequence-json')
    if expect_json is not None and data != json.loads(json.dumps(expect_json)):
        sh.violation('C17/json-differs-from-value', 'render_basic(%s) serialised to %r' % (short(v), data), case)


def judge_json_renderers(sh, rng):
    path = rng.pick(['/json', '/jsondev', '/stream', '/streamdev', '/jsonp', '/jsonp', '/jsonp2', '/latin1'])
    mode = rng.pick(['native', 'native', 'native', 'exotic'])
    if mode == 'native':
        v = json_native(rng)
        expect = v
    else:
        v, expect = exotic(rng)
    dev = path in ('/jsondev', '/streamdev', '/jsonp2')
    query = ''
    cb = None
    if path == '/jsonp' and rng.chance(0.7):
        cb = rng.pick(['cb', 'my.callback', 'jQuery123_456'])
        query = 'callback=' + cb
    if path == '/jsonp2' and rng.chance(0.7):
        cb = rng.pick(['f', 'a.b'])
        query = 'cb=' + cb
    ex = render(path, v, query)
    case = {'renderer': path, 'value': short(v), 'query': query}
    sh.case(case, nontrivial=True, klass='json%s:%s' % (path, mode), sample=dict(case, status=ex.status, ctype=mime(ex), body=ex.body[:80]))
    needs_dev = mode == 'exotic' and (expect is None or 'Plain' in short(v))
    if mode == 'exotic' and not needs_dev:
        sh.hit('json:collection-or-convertible-in-any-mode')
    if mode == 'exotic' and not dev:
        if needs_dev:
            return          # a non-dev renderer may refuse unknown objects
    if ex.exc is not None or ex.status != 200:
        sh.violation('C17/json-renderer-failed', '%s(%s) -> status %s %s %r' % (path, short(v), ex.status,
                                                                               probe.safe_repr(ex.exc) if ex.exc else '', ex.body[:200]), case)
        return
    charset = 'utf8'
    for part in (ex.header('Content-Type') or '').split(';')[1:]:
        if part.strip().lower().startswith('charset='):
            charset = part.split('=', 1)[1].strip()
    try:
        body = ex.body.decode(charset)
    except (UnicodeError, LookupError) as e:
        sh.violation('C17/json-charset-mismatch', '%s(%s): body does not decode with the declared charset %r: %s' % (path, short(v), charset, e), case)
        return
    if cb:
        sh.hit('jsonp:callback')
        if not (body.startswith(cb + '(') and body.endswith(');')):
            sh.violation('C17/jsonp-wrapper', '%s?%s emitted %r ... %r' % (path, query, body[:40], body[-10:]), case)
            return
        if mime(ex) != 'application/javascript':
            sh.violation('C17/jsonp-content-type', '%s?%s labelled %s' % (path, query, mime(ex)), case)
            return
        body = body[len(cb) + 1:-2]
    else:
        if path.startswith('/jsonp'):
            sh.hit('jsonp:no-callback')
        if mime(ex) != 'application/json':
            sh.violation('C17/json-content-type', '%s labelled %s' % (path, mime(ex)), case)
            return
    try:
        data = json.loads(body)
    except ValueError as e:
        sh.violation('C17/invalid-json', '%s(%s) emitted invalid JSON: %s %r' % (path, short(v), e, body[:120]), case)
        return
    if 'stream' in path:
        sh.hit('json:streaming')
    if expect is not None:
        want = json.loads(json.dumps(expect))
        if data != want:
            sh.violation('C17/json-roundtrip', '%s(%s) parses back to %r' % (path, short(v), data), case)
            return
        sh.hit('json:roundtrip')
    if dev and mode == 'exotic':
        sh.hit('json-dev:repr-fallback')


def plan(tier, seed):
    return [{'label': 'rand-%d' % i, 'n': 500 if tier == 'quick' else 32000, 'timeout': 7200} for i in range(NSHARDS)]


def run_shard(sh, spec):
    rng = Rng(spec['seed'], PROPERTY, spec['label'])

    def loop(n):
        for _ in range(n):
            judge_basic_text(sh, rng)
            judge_basic_scalar(sh, rng)
            judge_basic_container(sh, rng)
            judge_json_renderers(sh, rng)
    loop(spec['n'] // 2)
    # servers render on worker threads, not on the thread that imported the renderers and built the application
    import threading
    err = []

    def worker():
        try:
            loop(spec['n'] - spec['n'] // 2)
            sh.hit('rendered-on-another-thread')
        except BaseException as e:     # noqa - hand it to the main thread
            err.append(e)
    t = threading.Thread(target=worker)
    t.start()
    t.join()
    if err:
        raise err[0]


def replay(sh, case, spec):
    rng = Rng(0, 'replay')
    for _ in range(3000):
        judge_basic_text(sh, rng)
        judge_basic_scalar(sh, rng)
        judge_basic_container(sh, rng)
        judge_json_renderers(sh, rng)
    sh.notes['note'] = 'values are objects: replay re-runs the generator family (3000 rounds) instead of the single case'
