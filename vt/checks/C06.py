# -*- coding: utf-8 -*-
"""C06 - dispatch: first match in order, methods, 404/405, non-breaking fallthrough.

Monitor: for every (routing table, request) the WSGI exchange - status, X-Route marker, Allow
header - and the sequence of endpoints that actually ran (logged by the endpoints themselves)
are compared with the reference dispatcher's prediction."""
import itertools

from ..common import Rng
from .. import probe, tables, spies
from ..models import dispatch as md

PROPERTY = 'C06'
LEVEL = 'exploration'
RULE = ('cases are (routing table, path, method): tables of <=4 routes over 8 patterns x 5 method sets x 9 endpoint '
        'behaviours, built by constructor list or by a random sequence of add(route, index) calls (negative and '
        'overshooting indices included); requests = 12 paths x 9 methods; quick enumerates every 1- and 2-route '
        'table over a reduced catalogue and adds random 3-4 route tables; a case is non-trivial when at least one '
        "route's pattern matches the path; distinct by hash of (table, path, method)")
EXHAUSTIVE = {'quick': 'all 1- and 2-route tables over 4 patterns x 3 method sets x 5 behaviours, all 108 requests each',
              'thorough': 'all 1- and 2-route tables over the reduced catalogue'}
ASSUMPTIONS = ['request paths are canonical and patterns are leaves, so no slash redirect interferes (C07 covers those)',
               'which route answered is read from an X-Route header and from the endpoints\' own log']
REQUIRED_REACH = ['outcome:answered', 'outcome:404', 'outcome:405', 'outcome:fellthrough-then-answered',
                  'outcome:fellthrough-to-last-error', 'outcome:500', 'built-by:add', 'built-by:list',
                  'head-on-get-route', 'lowercase-method', 'unknown-method', 'allow-header-checked',
                  'add:negative-index', 'add:overshooting-index', 'path-outside-ascii']
PATTERNS = ['/a', '/a/<x>', '/<x>', '/<x>/<y>', '/a/<n:int>', '/<p*>', '/b', '/a/b']
PATTERNS_SMALL = ['/a', '/a/<x>', '/<x>', '/<p*>']
METHOD_SETS = [None, ['GET'], ['POST'], ['GET', 'POST'], ['PUT', 'DELETE'],
               # an empty collection restricts nothing; HEAD may be admitted without GET
               [], ['HEAD'], ['POST', 'HEAD']]
METHOD_SETS_SMALL = [None, ['GET'], ['POST', 'PUT']]
BEHS = list(md.BEHAVIOURS)
BEHS_SMALL = ['ok', 'raise_403', 'raise_nb_404', 'return_nb_403', 'uncaught']
PATHS = ['/a', '/a/b', '/a/5', '/b', '/zz', '/a/b/c', '/', '/x/y', '/a/-3', '/a/x', '/zz/a', '/a/b/c/d/e']
# paths outside ASCII (random tables only): a segment is a segment whatever its script
PATHS_TEXT = ['/a/caf\u00e9', '/\u65e5\u672c', '/a/\u00fc\u00f1/x', '/zz/\u00e9', '/\u00c3\u00a9', '/a/e\u0301']
METHODS = ['GET', 'HEAD', 'POST', 'PUT', 'DELETE', 'OPTIONS', 'PATCH', 'get', 'FOO']
NSHARDS = 16


def build(table, how, rng, sh):
    """-> (app, model_table).  how: 'list' or 'add' (random insertion order and indices)"""
    from clastic import Application
    if how == 'list':
        app = Application([tables.make_route(r) for r in table])
        return app, list(table)
    app = Application([])
    model = []
    order = list(range(len(table)))
    rng.shuffle(order)
    for i in order:
        r = table[i]
        choice = rng.randrange(5)
        if choice == 0:
            idx = None
        elif choice == 1:
            idx = rng.randint(0, len(model))
        elif choice == 2:
            idx = -rng.randint(1, len(model) + 2)
            sh.hit('add:negative-index')
        elif choice == 3:
            idx = len(model) + rng.randint(1, 3)
            sh.hit('add:overshooting-index')
        else:
            idx = 0
        if idx is None:
            app.add(tables.make_route(r))
            model.append(r)
        else:
            app.add(tables.make_route(r), index=idx)
            model.insert(idx, r)
    return app, model


def check_table(sh, table, how, rng, requests, klass, enumerated=False):
    try:
        app, model = build(table, how, rng, sh)
    except Exception as e:
        sh.violation('C06/table-construction-failed', 'building %r (%s) raised %r' % (table, how, e),
                     {'table': table, 'how': 'list', 'path': '/', 'method': 'GET'})
        return 0, 0
    sh.hit('built-by:' + how)
    got_patterns = [r.pattern for r in app.routes]
    if got_patterns != [r['pattern'] for r in model]:
        sh.violation('C06/routes-reordered', 'app.routes patterns %r, insertion order says %r'
                     % (got_patterns, [r['pattern'] for r in model]),
                     {'table': model, 'how': 'list', 'path': '/', 'method': 'GET'})
        return 0, 0
    n = nt = 0
    for path, method in requests:
        exp = md.dispatch(model, path, method)
        tr = spies.new_trace()
        ex = probe.request(app, method, path, token='t', trace=tr)
        ran = [e[1] for e in tr['events'] if e[0] == 'ep']
        n += 1
        nontrivial = bool(exp['executed']) or exp['status'] == 405
        nt += nontrivial
        case = {'table': model, 'how': 'list', 'path': path, 'method': method}
        if not enumerated:
            sh.case(case, nontrivial=nontrivial, klass=klass)
        # bookkeeping of what was reached
        if exp['status'] == 404 and not exp['executed']:
            sh.hit('outcome:404')
        elif exp['status'] == 405:
            sh.hit('outcome:405')
        elif exp['status'] == 500:
            sh.hit('outcome:500')
        elif len(exp['executed']) > 1 and exp['by'] == exp['executed'][-1] and md.BEHAVIOURS[[r for r in model if r['rid'] == exp['by']][0]['beh']][1]:
            sh.hit('outcome:fellthrough-then-answered')
        elif exp['executed'] and not md.BEHAVIOURS[[r for r in model if r['rid'] == exp['by']][0]['beh']][1]:
            sh.hit('outcome:fellthrough-to-last-error')
        else:
            sh.hit('outcome:answered')
        if method == 'HEAD' and exp['by'] and 'GET' in ([r for r in model if r['rid'] == exp['by']][0].get('methods') or []):
            sh.hit('head-on-get-route')
        if method == 'get':
            sh.hit('lowercase-method')
        if method == 'FOO':
            sh.hit('unknown-method')
        # verdicts
        if ex.exc is not None:
            sh.violation('C06/exception-escaped', '%s %s on %s: %r escaped' % (method, path, brief(model), ex.exc), case)
            continue
        if ran != exp['executed']:
            sh.violation('C06/wrong-routes-executed', '%s %s on %s: endpoints ran %r, reference says %r'
                         % (method, path, brief(model), ran, exp['executed']), case)
            continue
        if ex.status != exp['status']:
            sh.violation('C06/wrong-status', '%s %s on %s: status %s, reference says %s (by %s)'
                         % (method, path, brief(model), ex.status, exp['status'], exp['by']), case)
            continue
        marker = ex.header('X-Route')
        if exp['by'] and exp['status'] != 500 and marker != exp['by']:
            sh.violation('C06/answered-by-wrong-route', '%s %s on %s: answered by %r, reference says %r'
                         % (method, path, brief(model), marker, exp['by']), case)
            continue
        if exp['status'] == 405:
            sh.hit('allow-header-checked')
            allow = ex.header('Allow')
            got = set(x.strip().upper() for x in allow.split(',') if x.strip()) if allow is not None else None
            if got != exp['allow']:
                key = 'C06/405-without-allow-header' if allow is None else 'C06/405-allow-header-wrong'
                sh.violation(key, '%s %s on %s: Allow header %r, expected %r'
                             % (method, path, brief(model), allow, sorted(exp['allow'])), case)
    return n, nt


def brief(table):
    return '[' + ', '.join('%s %s %s %s' % (r['rid'], r['pattern'], '|'.join(r['methods'] or ['*']), r['beh']) for r in table) + ']'


ALL_REQUESTS = [(p, m) for p in PATHS for m in METHODS]


def small_tables():
    one = [dict(pattern=p, methods=ms, beh=b) for p in PATTERNS_SMALL for ms in METHOD_SETS_SMALL for b in BEHS_SMALL]
    for r in one:
        yield [dict(r, rid='r0')]
    for a in one:
        for b in one:
            yield [dict(a, rid='r0'), dict(b, rid='r1')]


def random_table(rng):
    n = rng.pick([1, 2, 3, 3, 4, 4])
    return [{'rid': 'r%d' % i, 'pattern': rng.pick(PATTERNS), 'methods': rng.pick(METHOD_SETS), 'beh': rng.pick(BEHS),
             'with_render': rng.chance(0.4)}
            for i in range(n)]


def plan(tier, seed):
    specs = []
    for i in range(NSHARDS):
        specs.append({'label': 'enum-%d' % i, 'kind': 'enum', 'index': i, 'of': NSHARDS, 'timeout': 3600})
        specs.append({'label': 'rand-%d' % i, 'kind': 'random', 'n': 200 if tier == 'quick' else 19000, 'timeout': 7200})
    return specs


def run_shard(sh, spec):
    rng = Rng(spec['seed'], PROPERTY, spec['label'])
    if spec['kind'] == 'enum':
        n_eval = n_nt = 0
        for k, table in enumerate(small_tables()):
            if k % spec['of'] != spec['index']:
                continue
            if len(table) == 2 and spec['tier'] == 'quick':
                reqs = [(p, m) for p in ('/a', '/a/b', '/zz/a') for m in ('GET', 'HEAD', 'POST', 'FOO')]
            else:
                reqs = ALL_REQUESTS
            n, nt = check_table(sh, table, 'list', rng, reqs, 'enumerated', enumerated=True)
            n_eval += n
            n_nt += nt
            if k % 997 == spec['index']:
                sh.sample('enumerated-table-%d' % k, {'table': brief(table), 'requests': len(reqs)})
        sh.count_enumerated(n_eval, n_nt)
    else:
        for _ in range(spec['n']):
            table = random_table(rng)
            how = rng.pick(['list', 'add', 'add'])
            reqs = [(rng.pick(PATHS), rng.pick(METHODS)) for _ in range(12)] + [(rng.pick(PATHS_TEXT), rng.pick(METHODS)) for _ in range(2)]
            sh.hit('path-outside-ascii', 2)
            check_table(sh, table, how, rng, reqs, 'random-%d-routes-%s' % (len(table), how))


def replay(sh, case, spec):
    rng = Rng(0, 'replay')
    check_table(sh, case['table'], 'list', rng, [(case['path'], case['method'])], 'replay')
    sh.notes['reference'] = md.dispatch(case['table'], case['path'], case['method'])
    sh.notes['reference']['allow'] = sorted(sh.notes['reference']['allow'] or [])
