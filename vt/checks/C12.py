# -*- coding: utf-8 -*-
"""C12 - concurrent requests on one Application do not interfere.

Monitor: every response produced under a controlled (or free-running) interleaving is compared
with the response the same request gets when served alone; request ids are collected and must be
unique in the process.  Interleavings are chosen by vt/sched.py at line (thorough: also opcode)
granularity inside clastic and the generated chain code."""
import os
import sys
import json
import zlib
import random
import threading

from ..common import Rng, REPO
from .. import probe, spies, sched

PROPERTY = 'C12'
LEVEL = 'exploration'
RULE = ('cases are schedules: every single-preemption schedule (thread A runs k clastic lines, B runs to completion, A resumes; '
        'every k) of every ordered pair from a catalogue of 9 request kinds (echo with provided values and URL parameters, 404, '
        '405, non-breaking fallthrough, uncaught exception, slash redirect, rendered context, raised HTTP error, error rendered '
        'by a custom handler), seeded random multi-preemption schedules of 3-4 threads, and free-running stress with a 1 us switch '
        'interval; a schedule is non-trivial when a preemption actually happened while the preempted request was inside clastic; '
        'distinct by (pair, preemption point) resp. hash of the switch list')
EXHAUSTIVE = {'quick': 'all single-preemption schedules at line granularity of all 81 ordered pairs of request kinds on a warm application (plus 21 pairs with further kinds), and for every second pair also on an application that never served a request',
              'thorough': 'every pair on a warm and on a fresh application at line granularity, plus opcode granularity inside application.py'}
ASSUMPTIONS = ['threads are serialised by the scheduler: interleavings inside C-level calls are not explored (atomic under the GIL)',
               'application code supplied by the harness is itself thread-safe and is not a preemption point']
REQUIRED_REACH = ['schedules:single-preemption', 'schedules:single-preemption-on-fresh-application', 'schedules:random-multi', 'stress:responses-compared', 'both-in-dispatch',
                  'request-ids-collected', 'preempted-inside:application.py', 'preempted-inside:route.py',
                  'preempted-inside:sinter-generated', 'kind:echo', 'kind:404', 'kind:405', 'kind:fallthrough', 'kind:boom',
                  'kind:redirect', 'kind:render', 'kind:httperr', 'kind:raw-path', 'kind:item-redirect', 'sequential:responses-compared']
NSHARDS = 16
KINDS = ['echo', 'echo2', '404', '405', 'fallthrough', 'boom', 'redirect', 'render', 'httperr']
# two routes on one path with different methods: a request neither admits makes the dispatcher collect both method sets
KINDS_MORE = ['thing-delete', 'thing-post', 'thing-get', 'param', 'echo-rawtail', 'echo-rawbytes', 'item-redirect', 'ctxproc', 'redirector']
EXTRA_PAIRS = [('thing-delete', 'thing-post'), ('thing-post', 'thing-delete'), ('thing-delete', 'thing-delete'), ('thing-delete', 'thing-get'),
               ('thing-post', 'echo'), ('405', 'thing-delete'), ('thing-delete', 'fallthrough'), ('param', 'param'), ('param', 'echo'), ('echo', 'param'),
               # request paths as a server hands them over: bytes that are not (or not yet) UTF-8 - a truncated multi-byte
               # character at the end, a Latin-1 byte in the middle - next to plain ASCII ones
               ('echo', 'echo-rawtail'), ('echo-rawtail', 'echo'), ('echo-rawtail', 'echo-rawtail'), ('404', 'echo-rawtail'),
               ('echo-rawbytes', 'echo'), ('echo', 'echo-rawbytes'), ('echo-rawtail', 'echo-rawbytes'),
               # a slash redirect issued after an earlier route on the path refused the method
               ('item-redirect', '404'), ('404', 'item-redirect'), ('item-redirect', 'item-redirect'), ('item-redirect', 'thing-delete'),
               # built-in helpers that sit on a route for its whole life: a context processor fed by a providing middleware, a
               # ready-made redirecting endpoint below a middleware that stamps the answer
               ('ctxproc', 'ctxproc'), ('ctxproc', 'render'), ('render', 'ctxproc'), ('redirector', 'redirector'), ('redirector', 'echo'), ('echo', 'redirector')]


FRESH_SKIPPED = ('echo-rawtail', 'echo-rawbytes', 'item-redirect', 'ctxproc', 'redirector')     # (kinds explored on the warm application only)


class RawPath(str):
    """PATH_INFO exactly as given (a WSGI 'bytes-as-latin-1' string), not the UTF-8 encoding of a text"""


def build_app():
    from clastic import Application, Route, Response, Middleware, render_basic
    from clastic.errors import NotFound, Forbidden, ErrorHandler

    class Who(Middleware):
        provides = ('who',)

        def request(self, next, request):
            return next(who='who:' + request.headers.get('X-Token', '-'))

    class Stamp(Middleware):
        provides = ('stamp',)

        def request(self, next, request, _route):
            r = next(stamp='stamp:%s:%s' % (request.headers.get('X-Token', '-'), _route.pattern))
            return r

        def endpoint(self, next, stamp):
            return next()

    def echo(request, x, who, stamp, _dispatch_state, _route):
        body = {'tok': request.headers.get('X-Token'), 'x': x, 'who': who, 'stamp': stamp, 'path': request.path,
                'q': request.query_string.decode('latin-1'), 'pp': request.path_params, 'route': _route.pattern,
                'ds_exc': len(_dispatch_state.exceptions), 'rid': [request.request_id, request.request_guid]}
        return Response(json.dumps(body, sort_keys=True), mimetype='application/json')

    def fall_first(request, x):
        raise NotFound(detail='nb:%s:%s' % (x, request.headers.get('X-Token')), is_breaking=False)

    def fall_second(request, x, who, _dispatch_state):
        return Response(json.dumps({'tok': request.headers.get('X-Token'), 'x': x, 'who': who, 'second': True,
                                    'seen_exc': [e.detail for e in _dispatch_state.exceptions], 'rid': [request.request_id, request.request_guid]},
                                   sort_keys=True), mimetype='application/json')

    def boom(request, x):
        raise ValueError('boom:%s:%s' % (x, request.headers.get('X-Token')))

    def ctx(request, x, who):
        return {'tok': request.headers.get('X-Token'), 'x': x, 'who': who}

    def httperr(request, x):
        raise Forbidden(detail='forbidden:%s:%s' % (x, request.headers.get('X-Token')))

    def branch(request, who):
        return Response('branch:%s' % who)

    class EH(ErrorHandler):
        def render_error(self, request, _error, _route):
            r = ErrorHandler.render_error(self, request, _error)
            r.headers['X-Err-Token'] = request.headers.get('X-Token', '-')
            r.headers['X-Err-Route'] = _route.pattern
            return r
    from clastic.middleware import GetParamMiddleware

    def param(request, who, count, page):
        return Response(json.dumps({'tok': request.headers.get('X-Token'), 'who': who, 'count': count, 'page': page}, sort_keys=True),
                        mimetype='application/json')
    from clastic.middleware import ContextProcessor
    from clastic.utils import Redirector
    from clastic import render_json

    class StampAnswer(Middleware):
        def request(self, next, request):
            r = next()
            r.headers['X-Err-Token'] = 'stamped:' + request.headers.get('X-Token', '-')
            return r
    routes = [Route('/cp/<x>', lambda request, x: {'tok': request.headers.get('X-Token'), 'x': x}, render_json,
                    middlewares=[ContextProcessor(required=['who'], defaults={'lang': 'en'})]),
              Route('/old/<x>', Redirector('/echo/moved'), middlewares=[StampAnswer()]),
              Route('/param', param, middlewares=[GetParamMiddleware({'count': int, 'page': str})]),
              Route('/echo/<x>', echo, methods=['GET']),
              Route('/fall/<x>', fall_first), Route('/fall/<x>', fall_second),
              Route('/boom/<x>', boom), Route('/branch/', branch), Route('/render/<x>', ctx, render_basic),
              Route('/err/<x>', httperr), Route('/only-get', lambda: Response('x'), methods=['GET']),
              Route('/item/<name>', lambda request, name, who: Response('item-written:%s:%s' % (name, who), status=201), methods=['POST']),
              Route('/item/<name>/', lambda request, name, who: Response('item:%s:%s' % (name, who))),
              Route('/thing', lambda request, who: Response('read:%s' % who), methods=['GET']),
              Route('/thing', lambda request, who: Response('written:%s' % who, status=201), methods=['POST'])]
    return Application(routes, middlewares=[Who(), Stamp()], error_handler=EH())


def make_request(kind, tok):
    # what the client accepts belongs to the request like its token does (error bodies are negotiated per request)
    accept = ['application/json', 'text/html', 'application/xml', 'text/plain', 'application/json', None][zlib.crc32(tok.encode()) % 6]
    h = {'X-Token': tok}
    if accept:
        h['Accept'] = accept
    if kind == 'echo-rawtail':
        return ('GET', RawPath('/echo/raw-%s\xc3' % tok), 'k=' + tok, h)
    if kind == 'echo-rawbytes':
        return ('GET', RawPath('/echo/caf\xe9-%s\xe2\x82' % tok), 'k=' + tok, h)
    if kind == 'ctxproc':
        return ('GET', '/cp/c-%s' % tok, 'k=' + tok, h)
    if kind == 'redirector':
        return ('GET', '/old/o-%s' % tok, '', h)
    if kind == 'item-redirect':
        return ('GET', '/item/i-%s' % tok, 'k=' + tok, h)
    if kind in ('echo', 'echo2'):
        return ('GET', '/echo/%s-%s' % (kind, tok), 'k=' + tok, h)
    if kind == '404':
        return ('GET', '/nothing/%s' % tok, '', h)
    if kind == '405':
        return ('POST', '/only-get', 'k=' + tok, h)
    if kind == 'fallthrough':
        return ('GET', '/fall/%s' % tok, '', h)
    if kind == 'param':
        # query parameters picked up by a built-in middleware: some requests send both, some one, some none, some junk
        c = zlib.crc32(tok.encode()) % 5
        q = ['count=%d&page=p-%s' % (zlib.crc32(tok.encode()) % 97, tok), 'page=only-%s' % tok, '', 'count=many&page=%s' % tok,
             'count=%d' % (zlib.crc32(tok.encode()) % 89)][c]
        return ('GET', '/param', q, h)
    if kind.startswith('thing-'):
        return (kind[6:].upper(), '/thing', 'k=' + tok, h)
    if kind == 'boom':
        return ('GET', '/boom/%s' % tok, '', h)
    if kind == 'redirect':
        return ('GET', '/branch', 'k=' + tok, h)
    if kind == 'render':
        return ('GET', '/render/%s' % tok, '', h)
    return ('GET', '/err/%s' % tok, '', h)


def observe(ex):
    body = ex.body.decode('utf8', 'replace')
    rid = None
    try:
        d = json.loads(body)
        if isinstance(d, dict) and 'rid' in d:
            rid = d.pop('rid')
            body = json.dumps(d, sort_keys=True)
    except ValueError:
        pass
    return {'status': ex.status, 'body': body, 'location': ex.header('Location'), 'ctype': ex.header('Content-Type'),
            'err_tok': ex.header('X-Err-Token'), 'err_route': ex.header('X-Err-Route'), 'allow': ex.header('Allow'),
            'exc': probe.safe_repr(ex.exc) if ex.exc is not None else None}, rid


def job_for(app, req):
    method, path, query, headers = req

    def job():
        return probe.request(app, method, path, query, headers=headers, token=headers['X-Token'], trace=spies.new_trace(),
                             raw_path=isinstance(path, RawPath))
    return job


ROOTS = (os.path.join(REPO, 'clastic') + os.sep, '<sinter generated')


class Ctx(object):
    def __init__(self, sh):
        self.sh = sh
        self.app = build_app()
        self.baseline = {}
        self.rids = []
        self.rid_lock = threading.Lock()

    def alone(self, kind, tok):
        key = (kind, tok)
        if key not in self.baseline:
            # "served alone": on an application of its own that serves nothing else, before or after
            ex = job_for(build_app(), make_request(kind, tok))()
            o, rid = observe(ex)
            self.baseline[key] = o
            if rid is not None:
                self.rids.append(rid)
        return self.baseline[key]

    def judge(self, kinds, toks, results, s, case, klass):
        sh = self.sh
        if s.broken:
            sh.hit('watchdog-fired')
            sh.notes['watchdog'] = s.broken
            return False
        ok = True
        for i, (kind, tok) in enumerate(zip(kinds, toks)):
            tag, val = results[i]
            if tag != 'ok':
                sh.violation('C12/thread-failed', 'thread %d (%s %s) %s: %s under schedule %r'
                             % (i, kind, tok, tag, probe.safe_repr(val), s.switches[:6]), case)
                ok = False
                continue
            o, rid = observe(val)
            if rid is not None:
                self.rids.append(rid)
                sh.hit('request-ids-collected')
            want = self.alone(kind, tok)
            if o != want:
                diff = [k for k in o if o[k] != want[k]]
                sh.violation('C12/response-differs-from-sequential',
                             'thread %d (%s token %s) got %r, served alone it gets %r; switches %r'
                             % (i, kind, tok, {k: o[k] for k in diff}, {k: want[k] for k in diff}, s.switches[:8]), case)
                ok = False
        for sw in s.switches:
            fn = sw[2][0]
            sh.hit('preempted-inside:' + ('sinter-generated' if fn.startswith('<sinter') else fn))
            sh.seen('preemption-points', '%s:%s' % sw[2])
        if s.overlap_dispatch:
            sh.hit('both-in-dispatch')
        for k in kinds:
            sh.hit('kind:' + {'echo2': 'echo', 'thing-get': 'thing', 'thing-post': 'thing', 'thing-delete': 'thing', 'echo-rawtail': 'raw-path', 'echo-rawbytes': 'raw-path'}.get(k, k))
        return ok


def single_preemption(cx, pairs, opcode=False, fresh_all=True):
    sh = cx.sh
    opfiles = ('application.py',) if opcode else ()
    n_eval = n_nt = 0
    for ka, kb in pairs:
        ta, tb = 'A' + ka, 'B' + kb
        cx.alone(ka, ta)
        cx.alone(kb, tb)
        na = sched.count_points(job_for(cx.app, make_request(ka, ta)), ROOTS, opfiles)
        for k in range(1, na + 1):
            s = sched.Scheduler(2, sched.preempt_once(k), ROOTS, opfiles)
            res = s.run([job_for(cx.app, make_request(ka, ta)), job_for(cx.app, make_request(kb, tb))])
            case = {'mode': 'single', 'a': ka, 'b': kb, 'k': k, 'opcode': opcode}
            cx.judge([ka, kb], [ta, tb], res, s, case, 'single')
            sh.hit('schedules:single-preemption')
            n_eval += 1
            n_nt += bool(s.switches)
        if not opcode and not (ka in FRESH_SKIPPED or kb in FRESH_SKIPPED) and (fresh_all or zlib.crc32(('%s|%s' % (ka, kb)).encode()) % 2 == 0):
            # the same schedules against an application that has never served a request: lazily built state
            # (caches, tables) is under construction exactly once in an application's life
            fresh0 = build_app()
            nf = sched.count_points(job_for(fresh0, make_request(ka, ta)), ROOTS, opfiles)
            for k in range(1, nf + 1):
                fresh = build_app()
                s = sched.Scheduler(2, sched.preempt_once(k), ROOTS, opfiles)
                res = s.run([job_for(fresh, make_request(ka, ta)), job_for(fresh, make_request(kb, tb))])
                case = {'mode': 'single', 'a': ka, 'b': kb, 'k': k, 'opcode': opcode, 'fresh': True}
                cx.judge([ka, kb], [ta, tb], res, s, case, 'single-fresh')
                sh.hit('schedules:single-preemption-on-fresh-application')
                n_eval += 1
                n_nt += bool(s.switches)
            if k == max(1, na // 2):
                sh.sample('single-%s-%s' % (ka, kb), {'pair': [ka, kb], 'points_of_A': na, 'k': k,
                                                      'switches': [list(x) for x in s.switches[:4]]})
    sh.count_enumerated(n_eval, n_nt)


def random_multi(cx, rng, n):
    sh = cx.sh
    for i in range(n):
        nthreads = rng.choice([3, 3, 4])
        kinds = [rng.choice(KINDS + KINDS_MORE) for _ in range(nthreads)]
        toks = ['R%d%s%d' % (j, kinds[j], i) for j in range(nthreads)]
        for k, t in zip(kinds, toks):
            cx.alone(k, t)
        seed = rng.randrange(1 << 30)
        prng = random.Random(seed)
        s = sched.Scheduler(nthreads, sched.random_policy(prng, rng.choice([0.05, 0.15, 0.4])), ROOTS)
        res = s.run([job_for(cx.app, make_request(k, t)) for k, t in zip(kinds, toks)], first=rng.randrange(nthreads))
        case = {'mode': 'random', 'kinds': kinds, 'toks': toks, 'policy_seed': seed, 'switches': len(s.switches)}
        cx.judge(kinds, toks, res, s, case, 'random')
        sh.hit('schedules:random-multi')
        sh.case({'mode': 'random', 'kinds': kinds, 'switch_list': [list(x) for x in s.switches]}, nontrivial=bool(s.switches),
                klass='random-%d-threads' % nthreads,
                sample={'kinds': kinds, 'switches': [list(x) for x in s.switches[:6]], 'n_switches': len(s.switches)})


def stress(cx, rng, nthreads, per_thread):
    """free-running: real preemption by the interpreter with a minimal switch interval"""
    sh = cx.sh
    old = sys.getswitchinterval()
    plans = []
    for t in range(nthreads):
        plans.append([(rng.choice(KINDS + KINDS_MORE), 'S%d_%d' % (t, j % 7)) for j in range(per_thread)])
    for plan_ in plans:
        for k, tok in set(plan_):
            cx.alone(k, tok)
    bad, rids = [], [[] for _ in range(nthreads)]
    start = threading.Barrier(nthreads)

    def body(t):
        start.wait()
        for kind, tok in plans[t]:
            ex = job_for(cx.app, make_request(kind, tok))()
            o, rid = observe(ex)
            if rid is not None:
                rids[t].append(rid)
            if o != cx.baseline[(kind, tok)] and len(bad) < 5:
                bad.append((t, kind, tok, o, cx.baseline[(kind, tok)]))
    sys.setswitchinterval(1e-6)
    try:
        threads = [threading.Thread(target=body, args=(t,)) for t in range(nthreads)]
        for th in threads:
            th.start()
        for th in threads:
            th.join(600)
    finally:
        sys.setswitchinterval(old)
    n = nthreads * per_thread
    sh.hit('stress:responses-compared' if nthreads > 1 else 'sequential:responses-compared', n)
    for r in rids:
        cx.rids.extend(r)
        sh.hit('request-ids-collected', len(r))
    sh.case({'mode': 'stress', 'threads': nthreads, 'per_thread': per_thread, 'plan_hash': hash(str(plans)) & 0xffffffff},
            nontrivial=True, klass='stress')
    sh.evaluations += n - 1
    for t, kind, tok, o, want in bad:
        diff = [k for k in o if o[k] != want[k]]
        sh.violation('C12/response-differs-from-sequential',
                     'free-running thread %d (%s token %s) got %r, served alone it gets %r'
                     % (t, kind, tok, {k: o[k] for k in diff}, {k: want[k] for k in diff}),
                     {'mode': 'stress', 'threads': nthreads, 'per_thread': per_thread})


def check_rids(cx):
    """both identifiers the framework assigns: the counter (request_id) and the token derived from it (request_guid)"""
    cx.sh.notes['request_ids'] = len(cx.rids)
    for which, idx in (('request_id', 0), ('request_guid', 1)):
        vals = [r[idx] if isinstance(r, (list, tuple)) else r for r in cx.rids]
        seen = set()
        dup = [r for r in vals if r in seen or seen.add(r)]
        if dup:
            cx.sh.violation('C12/duplicate-request-id', '%d duplicate %s values among %d (e.g. %r)' % (len(dup), which, len(vals), dup[:5]),
                            {'mode': 'rids'})
            return


def plan(tier, seed):
    specs = []
    pairs = [(a, b) for a in KINDS for b in KINDS] + EXTRA_PAIRS
    for i in range(NSHARDS):
        specs.append({'label': 'pairs-%d' % i, 'kind': 'single', 'pairs': pairs[i::NSHARDS], 'timeout': 7200})
    for i in range(8):
        specs.append({'label': 'random-%d' % i, 'kind': 'random', 'n': 250 if tier == 'quick' else 25000, 'timeout': 7200})
    for i in range(4 if tier == 'quick' else 16):
        specs.append({'label': 'stress-%d' % i, 'kind': 'stress', 'threads': 4, 'per_thread': 1500 if tier == 'quick' else 20000,
                      'timeout': 7200})
    # one client, one request after the other: what a request leaves behind meets the next one
    for i in range(2 if tier == 'quick' else 8):
        specs.append({'label': 'sequential-%d' % i, 'kind': 'stress', 'threads': 1, 'per_thread': 4000 if tier == 'quick' else 60000,
                      'timeout': 7200})
    if tier == 'thorough':
        for i in range(NSHARDS):
            specs.append({'label': 'opcode-%d' % i, 'kind': 'single-opcode', 'pairs': pairs[i::NSHARDS], 'timeout': 7200})
    return specs


def run_shard(sh, spec):
    cx = Ctx(sh)
    rng = random.Random(Rng(spec['seed'], PROPERTY, spec['label']).r.random())
    if spec['kind'] == 'single':
        single_preemption(cx, [tuple(p) for p in spec['pairs']], fresh_all=spec.get('tier') != 'quick')
    elif spec['kind'] == 'single-opcode':
        single_preemption(cx, [tuple(p) for p in spec['pairs']], opcode=True)
    elif spec['kind'] == 'random':
        random_multi(cx, rng, spec['n'])
    else:
        stress(cx, rng, spec['threads'], spec['per_thread'])
    check_rids(cx)


def replay(sh, case, spec):
    cx = Ctx(sh)
    if case.get('mode') == 'single':
        opfiles = ('application.py',) if case.get('opcode') else ()
        ka, kb = case['a'], case['b']
        ta, tb = 'A' + ka, 'B' + kb
        s = sched.Scheduler(2, sched.preempt_once(case['k']), ROOTS, opfiles)
        app = build_app() if case.get('fresh') else cx.app
        if case.get('fresh'):
            cx.alone(ka, ta)
            cx.alone(kb, tb)
        res = s.run([job_for(app, make_request(ka, ta)), job_for(app, make_request(kb, tb))])
        cx.judge([ka, kb], [ta, tb], res, s, case, 'single')
        sh.notes['switches'] = [list(x) for x in s.switches]
    elif case.get('mode') == 'random':
        prng = random.Random(case['policy_seed'])
        kinds, toks = case['kinds'], case['toks']
        s = sched.Scheduler(len(kinds), sched.random_policy(prng, 0.15), ROOTS)
        res = s.run([job_for(cx.app, make_request(k, t)) for k, t in zip(kinds, toks)])
        cx.judge(kinds, toks, res, s, case, 'random')
        sh.notes['note'] = 'random schedules replay approximately (switch probability is re-drawn)'
    elif case.get('mode') == 'stress':
        stress(cx, random.Random(0), case['threads'], case['per_thread'])
    check_rids(cx)
