# -*- coding: utf-8 -*-
"""C20 - the Flaw failsafe page works for any start-up error text.

Monitor: flaw.create_app(text, files) must construct; every path and method must answer a 200 HTML
page whose parsed text contains the error text and every monitored file name verbatim, with no
canary turned into markup (same tokenizer oracle as C09); for a standard traceback the page names
the exception type and message."""
import sys
import traceback
from html.parser import HTMLParser

from ..common import Rng
from .. import probe

PROPERTY = 'C20'
LEVEL = 'exploration'
RULE = ('cases are (error text, monitored file list, request): real tracebacks from a catalogue of exception types raised at depths '
        '1-30 with ASCII / markup / template-syntax / non-ASCII messages, SyntaxError reports, truncated and concatenated tracebacks, '
        'random printable and control-character text, ashes/dust syntax, empty string, None, bytes, int; file lists None / empty / '
        '2000 entries / hostile names; paths incl. /clastic_assets/... and methods incl. POST; non-trivial when the text is not '
        'plain ASCII prose; distinct by hash of the case')
ASSUMPTIONS = ['lone surrogates are excluded (the text is always bytes.decode("utf8") of a child\'s stderr)',
               'an existing file below /clastic_assets/ may be served instead of the page',
               'the verbatim clause applies to str input; for None / bytes / int only construction and a 200 HTML page are demanded']
REQUIRED_REACH = ['served-from-another-thread', 'standard-traceback-rendered', 'syntaxerror-rendered', 'non-text-rendered', 'canary-as-text', 'files:none',
                  'files:long', 'files:hostile', 'path:asset-prefix', 'method:POST', 'type-and-message-named', 'text:empty',
                  'text:template-syntax', 'text:control-chars']
NSHARDS = 16


class Tok(HTMLParser):
    def __init__(self):
        HTMLParser.__init__(self, convert_charrefs=True)
        self.tags, self.attrs, self.text = [], [], []

    def handle_starttag(self, tag, attrs):
        self.tags.append(tag)
        self.attrs.extend(attrs)

    def handle_data(self, d):
        self.text.append(d)


def _tok(body):
    t = Tok()
    t.feed(body.decode('utf8', 'replace'))
    t.close()
    return t


class AppError(Exception):
    pass


EXC_TYPES = [ValueError, KeyError, RuntimeError, ImportError, AttributeError, NameError, TypeError, OSError, AppError,
             ZeroDivisionError, AssertionError, UnicodeError, IndexError, ModuleNotFoundError]
MESSAGES = ['something broke', "name 'plarp' is not defined", '<vx7q1 a=1>x</vx7q1>', '"><vx7q2 b=2>', "' vx7qattr3='1",
            '{tb_str}{#parsed_err}x{/parsed_err}', '{~lb}{>partial/}{@eq key=1}', 'caf\xe9 ☃ 日本', '&lt;vx7q4&gt; &amp;',
            'colon: inside: message', 'a' * 500, 'tabs\tand  spaces', '[Errno 2] No such file: "/x/<y>"', '100% {done}',
            # text that a Unicode normalisation would respell (decomposed accents, compatibility characters, Hangul jamo,
            # marks in non-canonical order): the page shows the text it was given
            'Zoe\u0308 cannot open re\u0301sume\u0301.txt', 'R = 5 \u2126, d = 3 \u212b, T = 2 \u212a', 'bad glyph \uf900 \ufb01 \uff21',
            '\u1112\u1161\u11ab\u1100\u1173\u11af', 'q\u0307\u0323 != q\u0323\u0307', '\u00bd \u2460 \u33a1']


def raise_at_depth(exc, depth):
    if depth <= 0:
        raise exc
    return raise_at_depth(exc, depth - 1)


def real_traceback(rng):
    et = rng.pick(EXC_TYPES)
    msg = rng.pick(MESSAGES)
    try:
        raise_at_depth(et(msg), rng.randint(1, 30))
    except Exception as e:
        text = traceback.format_exc()
    if et is KeyError:
        shown = repr(msg)
    else:
        shown = msg
    name = et.__name__ if et.__module__ == 'builtins' else '%s.%s' % (et.__module__, et.__name__)
    return text, name, shown


def syntax_error_report(rng):
    src = rng.pick(['def f(:\n    pass\n', 'x = = 1\n', 'print("unterminated\n', 'class <vx7q5>:\n  pass\n', 'a = {b: \n'])
    try:
        compile(src, rng.pick(['app.py', '/srv/<vx7q6>/main.py', 'módulo.py']), 'exec')
    except SyntaxError:
        return traceback.format_exc()
    return 'SyntaxError: ?'


def random_text(rng):
    n = rng.randint(0, 400)
    alphabet = 'abc XYZ09<>&"\'{}#/\\~@:;=%\n\t\x00\x01\x1b\x7f\xe9☃'
    if rng.chance(0.4):
        # every kind of line boundary str.splitlines knows, not only LF
        alphabet += '\r\x0b\x0c\x1c\x1d\x1e\x85\u2028\u2029'
    return ''.join(rng.pick(alphabet) for _ in range(n))


def gen_case(rng, n):
    kind = rng.pick(['traceback', 'traceback', 'traceback', 'syntax', 'truncated', 'concatenated', 'random', 'template', 'empty',
                     'none', 'bytes', 'int', 'ignored-exc', 'bare-line', 'many-lines'])
    exp = None
    if kind == 'traceback':
        text, name, msg = real_traceback(rng)
        exp = (name, msg)
    elif kind == 'syntax':
        text = syntax_error_report(rng)
    elif kind == 'truncated':
        t = real_traceback(rng)[0]
        text = t[:rng.randrange(len(t))]
    elif kind == 'concatenated':
        text = real_traceback(rng)[0] + '\nDuring handling of the above exception, another exception occurred:\n\n' + real_traceback(rng)[0]
    elif kind == 'ignored-exc':
        text, name, msg = real_traceback(rng)
        text += 'Exception ignored in: <function X.__del__ at 0x7f>\n'
    elif kind == 'bare-line':
        # not a traceback at all: a lone "Type: message" line or a tool's message - text that merely *mentions* character
        # references, backslash escapes or percent escapes is text like any other
        text = rng.pick(['ValueError: unexpected entity &nbsp; after &lt;td&gt;', 'error: &amp; is not allowed here', 'AttributeError: &#38; &#x27; &#60;vx7q11&#62;',
                         'TemplateSyntaxError: expected token &gt; got &quot;', 'note &copy; 2024 &mdash; reload failed', 'ImportError: No module named caf\\xe9',
                         'KeyError: %3Cvx7q12%3E %26amp%3B', 'OSError: [Errno 2] \\u003cvx7q13\\u003e', 'SyntaxError: invalid character &#x2028; in identifier',
                         'RuntimeError: &lt;vx7q14 a=1&gt;x&lt;/vx7q14&gt;', 'reloader: watching 3 files &hellip; &#8230; &lt;', 'E: &amp;amp;lt; twice &amp;lt;',
                         # text that looks like credentials, tokens, addresses: the page is for the developer at the console - it shows
                         # the text it was given
                         "ValueError: bad settings line: token = abc123", "OperationalError: connect('postgres://app:hunter2@db:5432/x', password='hunter2') failed",
                         'KeyError: api_key=sk-12345 secret=s3cr3t', 'ConfigError: PASSWORD: swordfish; user: admin', 'error: Authorization: Bearer eyJhbGciOi.e30.x',
                         'OSError: cannot read /home/alice/.ssh/id_rsa (uid=1000)', 'note: contact ops@example.com or 10.0.0.7:8080'])
        if rng.chance(0.3):
            text = text + rng.pick(['\n', '\n\n', ' '])
    elif kind == 'many-lines':
        # reports of thousands of lines (deep recursion, many chained exceptions, a log): all of it is the text
        n_lines = rng.pick([1023, 1024, 1025, 1500, 3000])
        text = rng.pick(['\n'.join('line %d of the report vx7qtext%d' % (i, i) for i in range(n_lines)),
                         ''.join(real_traceback(rng)[0] for _ in range(n_lines // 20 + 1))])
    elif kind == 'random':
        text = random_text(rng)
    elif kind == 'template':
        text = rng.pick(['{tb_str}', '{#x}{/x}', '{~lb}', '{>partial/}', '{#mon_files}{.}{/mon_files}', '{@iterate key=x}{/iterate}',
                         '{! comment !}', '{', '}', '{{', '{x|s}', '{?parsed_err}yes{:else}no{/parsed_err}']) + rng.pick(['', ' tail', '\n<vx7q7>'])
    elif kind == 'empty':
        text = rng.pick(['', '\n', '   ', '\n\n\n'])
    elif kind == 'none':
        text = None
    elif kind == 'bytes':
        text = rng.pick([b'Traceback (most recent call last):\n  File "x.py", line 1, in <module>\nValueError: <b>\n', b'\xff\xfe raw', b''])
    else:
        text = rng.pick([0, 42, 3.5])
    if kind in ('traceback', 'syntax', 'concatenated') and rng.chance(0.2):
        # the same report as a Windows console or a log shipper hands it over
        text = text.replace('\n', rng.pick(['\r\n', '\r\n', '\r', '\n\x0c', '\u2028']))
        if exp:
            exp = (exp[0], exp[1].replace('\n', ' ')) if '\n' not in exp[1] else None
        if exp is None and kind == 'traceback':
            kind = 'random'
    fk = rng.pick(['none', 'empty', 'normal', 'long', 'hostile', 'site'])
    if fk == 'none':
        files = None
    elif fk == 'empty':
        files = []
    elif fk == 'normal':
        files = ['/srv/app/main.py', '/srv/app/views.py', 'relative.py']
    elif fk == 'long':
        files = ['/srv/app/pkg%d/module_%d.py' % (i % 37, i) for i in range(2000)]
    elif fk == 'site':
        files = [traceback.__file__, '/srv/app/own.py', probe.__file__]
    else:
        files = ['/srv/<vx7q8 c=3>/a.py', '/tmp/"><vx7q9>.py', "/x/' vx7qattr10='1.py", '/t/{tb_str}{#x}{/x}.py', '/é/☃.py', '/a b/c&d.py', '',
                 # names that path clean-ups would rewrite: they are to be shown as given
                 '/srv/app/<img src="http://cdn.example//x.png">.py', '/srv/./app/b.py', '/srv/app/pkg/../c.py', '/srv//app//d.py', '/srv/app/dir/',
                 './rel/e.py', '<script src=//evil.example/x.js></script>.py', 'C:\\app\\f.py', '/srv/app/g.py ', '/srv/app/\u0065\u0301.py']
    path = rng.pick(['/', '/', '/anything', '/deep/er/path/', '/clastic_assets/', '/clastic_assets/nothing.css', '/clastic_assets/common.css',
                     '/<vx7q11>', '/%7Btb_str%7D', '/a//b', '/favicon.ico', '/clastic_assets/../flaw.py', '/clastic_assets//etc/hosts',
                     '/clastic_assets/js/../../x', '/clastic_assets/..', '/clastic_assets/%2e%2e/x'])
    # every method: the registered ones and extension tokens (WebDAV, cache purges, anything a client makes up)
    method = rng.pick(['GET', 'GET', 'GET', 'POST', 'HEAD', 'PUT', 'DELETE', 'OPTIONS', 'PATCH', 'PROPFIND', 'PURGE', 'FOO', 'M-SEARCH', 'get'])
    return {'kind': kind, 'text': text, 'files_kind': fk, 'files': files, 'path': path, 'method': method, 'expect': exp, 'n': n}


_parser_stats = {'installed': False, 'returned': 0, 'raised': 0}


def install_parser_counter():
    if _parser_stats['installed']:
        return
    _parser_stats['installed'] = True
    try:
        from clastic import flaw
        orig = flaw._ParsedTB.from_string.__func__

        def counting(cls, tb_str):
            try:
                r = orig(cls, tb_str)
            except BaseException:
                _parser_stats['raised'] += 1
                raise
            _parser_stats['returned'] += 1
            return r
        flaw._ParsedTB.from_string = classmethod(counting)
    except Exception:
        pass


def judge(sh, case, record=True):
    from clastic import flaw
    text, files = case['text'], case['files']
    brief = {'kind': case['kind'], 'text': (text[:200] if isinstance(text, (str, bytes)) else text), 'files_kind': case['files_kind'],
             'path': case['path'], 'method': case['method']}

    def bad(key, what):
        sh.violation('C20/' + key, '%r -> %s' % (brief, what), dict(case, files=(case['files'] if case['files_kind'] != 'long' else 'LONG')))
    if record:
        nontrivial = not (isinstance(text, str) and text.isascii() and case['kind'] == 'random')
        sh.case(dict(brief, n=case['n'] if case['kind'] in ('none', 'empty', 'int', 'bytes') else 0), nontrivial=nontrivial,
                klass='%s:%s' % (case['kind'], case['files_kind']), sample=brief)
    sh.hit('files:' + case['files_kind'])
    if case['kind'] == 'empty':
        sh.hit('text:empty')
    if case['kind'] == 'template':
        sh.hit('text:template-syntax')
    if isinstance(text, str) and any(ord(c) < 32 and c not in '\n\t' for c in text):
        sh.hit('text:control-chars')
    try:
        app = flaw.create_app(text, list(files) if files is not None else None)
    except Exception as e:
        bad('create-app-raises', 'create_app raised %s: %s' % (type(e).__name__, e))
        return
    if case['method'] == 'POST':
        sh.hit('method:POST')
    if case['path'].startswith('/clastic_assets'):
        sh.hit('path:asset-prefix')
    def ask():
        return probe.request(app, case['method'], case['path'], body=b'x=1' if case['method'] in ('POST', 'PUT') else b'')
    if case.get('n', 0) % 3 == 0:
        # the development server builds the failsafe application in its main thread and serves it from another one
        import threading
        box = []
        t = threading.Thread(target=lambda: box.append(ask()))
        t.start()
        t.join()
        ex = box[0]
        sh.hit('served-from-another-thread')
    else:
        ex = ask()
    if ex.exc is not None:
        bad('exception-escaped', '%s escaped' % probe.safe_repr(ex.exc)[:300])
        return
    if ex.status != 200:
        bad('status-%s' % ex.status, 'status %s %r' % (ex.status, ex.body[:200]))
        return
    ctype = (ex.header('Content-Type') or '').split(';')[0]
    if case['path'].startswith('/clastic_assets/') and ctype != 'text/html':
        return        # a real asset was served
    if ctype != 'text/html':
        bad('not-html', 'Content-Type %r' % ctype)
        return
    if case['method'] == 'HEAD':
        return
    if ex.length_problem():
        # the page is what a browser reads: the announced number of bytes of what was sent
        bad('page-cut-short', ex.length_problem())
        return
    sh.hit('content-length-compared')
    body = ex.body.decode('utf8', 'replace')
    tok = Tok()
    tok.feed(body)
    tok.close()
    inj = [t for t in tok.tags if t.startswith('vx7q')] + ['@' + a for a, _ in tok.attrs if a.startswith('vx7qattr')]
    if inj:
        bad('markup-injection', 'canary became markup: %r' % inj[:5])
        return
    page = ''.join(tok.text)
    if not isinstance(text, str):
        sh.hit('non-text-rendered')
    else:
        if text not in page:
            bad('error-text-missing', 'the error text does not appear verbatim in the page text (page text starts %r)' % page[:200].strip())
            return
        if 'vx7q' in text:
            sh.hit('canary-as-text')
    for fn in (files or []):
        if fn not in page:
            bad('file-name-missing', 'monitored file %r does not appear in the page' % fn)
            return
    # the same application keeps answering (a second, different request)
    ex3 = probe.request(app, 'GET', '/second/look')
    if ex3.exc is not None or ex3.status != 200 or (isinstance(text, str) and text not in ''.join(_tok(ex3.body).text)):
        bad('second-request-differs', 'a second request to the same failsafe application gave status %s (%s)'
            % (ex3.status, probe.safe_repr(ex3.exc) if ex3.exc else 'text missing' if ex3.status == 200 else ''))
        return
    if case['kind'] == 'traceback':
        sh.hit('standard-traceback-rendered')
        name, msg = case['expect']
        short = name.rsplit('.', 1)[-1]
        if short not in page or msg not in page:
            bad('type-or-message-missing', 'page does not name %s / %r' % (name, msg[:80]))
            return
        sh.hit('type-and-message-named')
    if case['kind'] == 'syntax':
        sh.hit('syntaxerror-rendered')
        if 'SyntaxError' not in page:
            bad('type-or-message-missing', 'page does not name SyntaxError')


def plan(tier, seed):
    return [{'label': 'rand-%d' % i, 'index': i, 'n': 220 if tier == 'quick' else 12000, 'timeout': 7200} for i in range(NSHARDS)]


def run_shard(sh, spec):
    install_parser_counter()
    rng = Rng(spec['seed'], PROPERTY, spec['label'])
    for i in range(spec['n']):
        judge(sh, gen_case(rng, i))
    sh.hit('parser:returned', _parser_stats['returned'])
    sh.hit('parser:raised', _parser_stats['raised'])
    sh.notes['parser'] = 'informational: _ParsedTB.from_string returned %d times, raised %d times' % (
        _parser_stats['returned'], _parser_stats['raised'])


def replay(sh, case, spec):
    from ..common import unjson_bytes
    case = dict(case)
    if case.get('files') == 'LONG':
        case['files'] = ['/srv/app/pkg%d/module_%d.py' % (i % 37, i) for i in range(2000)]
    if isinstance(case.get('expect'), list):
        case['expect'] = tuple(case['expect'])
    judge(sh, case, record=False)
