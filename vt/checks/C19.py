# -*- coding: utf-8 -*-
"""C19 - stats count every request once and keep bounded samples.

Part A (counting): histories of requests over routes with every outcome kind, interleaved with
reads of the embedded stats application and resets; the report must equal a model counter fed by
the endpoints' own log of which routes each request reached.
Part B (sample store): the real Reservoir / RouteStatReservoir driven through long add/resize/
iterate histories under many random seeds; an icontract class invariant (size <= capacity)
is evaluated after every public method and a shadow model checks exact counts and provenance."""
import json
import random
import collections

from ..common import Rng, setup_paths
from .. import probe, spies

PROPERTY = 'C19'
LEVEL = 'exploration'
RULE = ('part A: histories of <=60 steps over requests to routes with outcome kinds {200, redirect response, raised / returned 4xx, '
        'non-breaking error with fallthrough, uncaught exception, 404 and 405 on the catch-all route, slash redirect that reaches no '
        'route} interleaved with stats reads and resets, every route with its own pattern (O9); part B: histories of add / resize / '
        'iterate on Reservoir with capacities 1-8 and the default 16384, lengths up to 40x capacity, shrink-then-grow sequences, '
        'many random seeds; non-trivial when a history contains a reset, a failing request or a resize; distinct by hash of the history')
ASSUMPTIONS = ['the reset request\'s own hit may be counted in the totals it returns or in the new epoch (O7)',
               'status keys are compared after stripping the quotes repr() puts around exception type names']
REQUIRED_REACH = ['A:reports-compared', 'A:resets', 'A:outcome:200', 'A:outcome:redirect', 'A:outcome:raised-4xx',
                  'A:outcome:returned-4xx', 'A:outcome:uncaught', 'A:outcome:404', 'A:outcome:405', 'A:outcome:fallthrough',
                  'A:outcome:slash-redirect', 'B:stores-driven-past-capacity', 'B:shrink-then-grow', 'B:ops-checked',
                  'B:route-stat-reservoir', 'B:default-capacity-filled', 'A:count-beyond-sample-capacity', 'A:overlapping-requests', 'B:values:int-from-zero', 'B:values:empty-tuple-first', 'B:values:none-first']
NSHARDS = 16

ROUTES = [('/ok', 'ok'), ('/item/<x>', 'ok'), ('/moved', 'redirect'), ('/deny', 'raise403'), ('/gone', 'return410'),
          ('/crash', 'uncaught'), ('/nb/<x>', 'nb404'), ('/nb/<x>/', 'never'), ('/nb2/a', 'nb404'), ('/nb2/<y>', 'ok'),
          ('/nb3/<x>', 'nb404'), ('/flaky/<x>', 'flaky'), ('/only-get', 'ok-get'), ('/branch/', 'ok'), ('/teapot', 'return418'), ('/keyerr', 'uncaught-key'),
          # patterns outside ASCII; two of them differ only in their Unicode spelling (precomposed / decomposed): different
          # patterns, different request paths, different routes
          ('/caf\u00e9', 'ok'), ('/cafe\u0301', 'ok'), ('/\u212bng/<x>', 'raise403'), ('/\u00c5ng/<x>', 'ok'),
          # a request that is still being served while others come and go
          ('/hold/<x>', 'hold')]
_holds = {}


_clock = {'offset': 0.0, 'installed': False}


def install_clock():
    """the time source of the stats middleware (module attribute `time`) runs ahead of the real one by an offset that slow
    endpoints increase: requests that 'take' seconds without the check waiting for them"""
    if _clock['installed']:
        return
    _clock['installed'] = True
    import time as real
    import clastic.middleware.stats as st

    class ClockProxy(object):
        def __getattr__(self, name):
            return getattr(real, name)

        def time(self):
            return real.time() + _clock['offset']
    st.time = ClockProxy()


def build_app():
    from clastic import Application, Route, Response, redirect
    from clastic import errors
    from clastic.middleware.stats import StatsMiddleware, create_stats_app
    install_clock()

    def mk(pattern, beh):
        names = ['x'] if '<x>' in pattern else (['y'] if '<y>' in pattern else [])

        def run(**kw):
            tr = probe.current_trace()
            if tr is not None:
                tr['events'].append(['reached', pattern])
            if beh == 'flaky':
                # one route, several outcomes: decided by the URL value
                how = kw.get('x')
                if how.startswith('back-'):
                    _clock['offset'] -= {'s': 5.0, 'h': 3600.0}[how[5]]      # the wall clock is set back while this request is being served
                    how = how[7:]
                if how.startswith('slow-'):
                    _clock['offset'] += {'s': 1.5, 'm': 75.0}[how[5]]      # this request takes seconds, or more than a minute
                    how = how[7:]
                if how.startswith('wz-'):
                    # an HTTP error of the underlying library (werkzeug.exceptions / abort()): it carries a code too
                    import werkzeug.exceptions as wz
                    raise {'404': wz.NotFound, '403': wz.Forbidden, '400': wz.BadRequest, '413': wz.RequestEntityTooLarge}[how[3:]]()
                if how == 'boom':
                    raise ValueError('flaky crash')
                if how == 'deny':
                    raise errors.Forbidden('flaky no')
                if how == 'teapot':
                    return errors.ImATeapot()
                if how.startswith('exc-'):
                    raise {'key': KeyError, 'type': TypeError, 'index': IndexError, 'zero': ZeroDivisionError, 'attr': AttributeError,
                           'runtime': RuntimeError, 'os': OSError, 'lookup': LookupError, 'assert': AssertionError}[how[4:]]('flaky ' + how)
                if how.startswith('odd-'):
                    # status codes no registry knows: valid on the wire, and what the request is counted under
                    what, code = how[4:].split('-')
                    code = int(code)
                    if what == 'resp':
                        return Response('odd status', status=code, mimetype='text/plain')
                    err = errors.BadRequest('odd status', code=code)
                    if what == 'ret':
                        return err
                    raise err
                if how.startswith('code-'):
                    raise {'400': errors.BadRequest, '401': errors.Unauthorized, '404': errors.NotFound, '409': errors.Conflict,
                           '410': errors.Gone, '429': errors.TooManyRequests, '502': errors.BadGateway, '503': errors.ServiceUnavailable}[how[5:]]('flaky')
                return Response('flaky fine', mimetype='text/plain')
            if beh == 'hold':
                gate = _holds.get(kw.get('x'))
                if gate is not None:
                    gate['entered'].set()
                    gate['release'].wait(30)
                if kw.get('x', '').startswith('crash'):
                    raise RuntimeError('held, then crashed')
                return Response('held', mimetype='text/plain')
            if beh in ('ok', 'ok-get', 'never'):
                return Response('fine', mimetype='text/plain')
            if beh == 'redirect':
                return redirect('http://verif.test/ok')
            if beh == 'raise403':
                raise errors.Forbidden('no')
            if beh == 'return410':
                return errors.Gone()
            if beh == 'return418':
                return errors.ImATeapot()
            if beh == 'nb404':
                raise errors.NotFound(is_breaking=False)
            if beh == 'uncaught-key':
                raise KeyError('k')
            raise ValueError('crash')
        src = 'def ep(%s):\n    return run(%s)\n' % (', '.join(names), ', '.join('%s=%s' % (n, n) for n in names))
        ns = {'run': run}
        exec(src, ns)
        return Route(pattern, ns['ep'], methods=['GET'] if beh == 'ok-get' else None)
    mw = StatsMiddleware()
    routes = [mk(p, b) for p, b in ROUTES] + [('/_stats', create_stats_app())]
    return Application(routes, middlewares=[mw]), mw


REQS = [
    # (kind, method, path, [(pattern reached, status key)...])
    ('200', 'GET', '/ok', [('/ok', '200')]), ('200', 'GET', '/item/7', [('/item/<x>', '200')]), ('200', 'HEAD', '/ok', [('/ok', '200')]),
    ('redirect', 'GET', '/moved', [('/moved', '302')]), ('raised-4xx', 'GET', '/deny', [('/deny', '403')]),
    ('returned-4xx', 'GET', '/gone', [('/gone', '410')]), ('returned-4xx', 'POST', '/teapot', [('/teapot', '418')]),
    ('uncaught', 'GET', '/crash', [('/crash', 'ValueError')]), ('uncaught', 'GET', '/keyerr', [('/keyerr', 'KeyError')]),
    ('404', 'GET', '/nowhere', [('/<_ignored*>', '404')]), ('404', 'POST', '/a/b/c', [('/<_ignored*>', '404')]),
    ('405', 'POST', '/only-get', [('/<_ignored*>', '405')]), ('200', 'GET', '/only-get', [('/only-get', '200')]),
    ('slash-redirect', 'GET', '/nb/q', [('/nb/<x>', '404')]),
    ('fallthrough', 'GET', '/nb3/q', [('/nb3/<x>', '404'), ('/<_ignored*>', '404')]),
    ('fallthrough', 'GET', '/nb2/a', [('/nb2/a', '404'), ('/nb2/<y>', '200')]),
    ('slash-redirect', 'GET', '/branch', []), ('200', 'GET', '/branch/', [('/branch/', '200')]),
    ('slash-redirect', 'GET', '/nb/q//', [('/nb/<x>', '404')]),
    ('200', 'GET', '/flaky/fine', [('/flaky/<x>', '200')]), ('uncaught', 'GET', '/flaky/boom', [('/flaky/<x>', 'ValueError')]),
    ('raised-4xx', 'GET', '/flaky/deny', [('/flaky/<x>', '403')]), ('returned-4xx', 'GET', '/flaky/teapot', [('/flaky/<x>', '418')]),
    ('uncaught', 'POST', '/flaky/boom', [('/flaky/<x>', 'ValueError')]), ('200', 'HEAD', '/flaky/x', [('/flaky/<x>', '200')]),
    # one route, many different outcomes between two resets
    ('uncaught', 'GET', '/flaky/exc-key', [('/flaky/<x>', 'KeyError')]),
    ('uncaught', 'GET', '/flaky/exc-type', [('/flaky/<x>', 'TypeError')]),
    ('uncaught', 'GET', '/flaky/exc-index', [('/flaky/<x>', 'IndexError')]),
    ('uncaught', 'GET', '/flaky/exc-zero', [('/flaky/<x>', 'ZeroDivisionError')]),
    ('uncaught', 'GET', '/flaky/exc-attr', [('/flaky/<x>', 'AttributeError')]),
    ('uncaught', 'GET', '/flaky/exc-runtime', [('/flaky/<x>', 'RuntimeError')]),
    ('uncaught', 'GET', '/flaky/exc-os', [('/flaky/<x>', 'OSError')]),
    ('uncaught', 'GET', '/flaky/exc-lookup', [('/flaky/<x>', 'LookupError')]),
    ('uncaught', 'GET', '/flaky/exc-assert', [('/flaky/<x>', 'AssertionError')]),
    ('raised-4xx', 'GET', '/flaky/code-400', [('/flaky/<x>', '400')]),
    ('raised-4xx', 'GET', '/flaky/code-401', [('/flaky/<x>', '401')]),
    ('raised-4xx', 'GET', '/flaky/code-404', [('/flaky/<x>', '404')]),
    ('raised-4xx', 'GET', '/flaky/code-409', [('/flaky/<x>', '409')]),
    ('raised-4xx', 'GET', '/flaky/code-410', [('/flaky/<x>', '410')]),
    ('raised-4xx', 'GET', '/flaky/code-429', [('/flaky/<x>', '429')]),
    ('raised-4xx', 'GET', '/flaky/code-502', [('/flaky/<x>', '502')]),
    ('raised-4xx', 'GET', '/flaky/code-503', [('/flaky/<x>', '503')]),
    # slow requests (the middleware's clock is moved while they run): every kind of outcome, slowly
    ('200', 'GET', '/flaky/slow-s-fine', [('/flaky/<x>', '200')]), ('uncaught', 'GET', '/flaky/slow-s-exc-os', [('/flaky/<x>', 'OSError')]),
    ('uncaught', 'GET', '/flaky/slow-m-boom', [('/flaky/<x>', 'ValueError')]), ('raised-4xx', 'GET', '/flaky/slow-s-code-404', [('/flaky/<x>', '404')]),
    ('returned-4xx', 'GET', '/flaky/slow-m-teapot', [('/flaky/<x>', '418')]), ('uncaught', 'POST', '/flaky/slow-s-exc-lookup', [('/flaky/<x>', 'LookupError')]),
    # the wall clock steps back while the request runs (an NTP correction, a resumed VM): the request reached its route all the same
    ('200', 'GET', '/flaky/back-s-fine', [('/flaky/<x>', '200')]), ('raised-4xx', 'GET', '/flaky/back-h-deny', [('/flaky/<x>', '403')]),
    ('uncaught', 'GET', '/flaky/back-s-exc-key', [('/flaky/<x>', 'KeyError')]), ('returned-4xx', 'POST', '/flaky/back-h-teapot', [('/flaky/<x>', '418')]),
    ('uncaught', 'GET', '/flaky/wz-404', [('/flaky/<x>', '404')]), ('uncaught', 'GET', '/flaky/wz-403', [('/flaky/<x>', '403')]),
    ('uncaught', 'POST', '/flaky/wz-400', [('/flaky/<x>', '400')]), ('uncaught', 'GET', '/flaky/wz-413', [('/flaky/<x>', '413')]),
    # status codes outside the registries
    ('200', 'GET', '/flaky/odd-resp-299', [('/flaky/<x>', '299')]), ('returned-4xx', 'GET', '/flaky/odd-resp-499', [('/flaky/<x>', '499')]),
    ('raised-4xx', 'GET', '/flaky/odd-raise-420', [('/flaky/<x>', '420')]), ('returned-4xx', 'GET', '/flaky/odd-ret-444', [('/flaky/<x>', '444')]),
    ('raised-4xx', 'POST', '/flaky/odd-raise-599', [('/flaky/<x>', '599')]), ('200', 'GET', '/flaky/odd-resp-209', [('/flaky/<x>', '209')]),
    ('200', 'GET', '/caf\u00e9', [('/caf\u00e9', '200')]), ('200', 'GET', '/cafe\u0301', [('/cafe\u0301', '200')]),
    ('200', 'GET', '/caf\u00e9', [('/caf\u00e9', '200')]), ('raised-4xx', 'GET', '/\u212bng/1', [('/\u212bng/<x>', '403')]),
    ('200', 'GET', '/\u00c5ng/1', [('/\u00c5ng/<x>', '200')]),
]


def norm_key(k):
    return k.strip("'\"")


def read_report(app):
    ex = probe.request(app, 'GET', '/_stats/', 'format=json', trace=spies.new_trace())
    if ex.exc is not None or ex.status != 200:
        return None, 'stats page: status %s exc %s body %r' % (ex.status, probe.safe_repr(ex.exc) if ex.exc else None, ex.body[:200])
    data = json.loads(ex.body.decode('utf8'))
    out = {}
    for pattern, sts in data['route_stats'].items():
        for k, v in sts.items():
            out[(pattern, norm_key(k))] = v['count']
    return out, None


def part_a_history(sh, rng, steps):
    app, mw = build_app()
    model = collections.Counter()
    log = []
    nontrivial = False

    def fail(key, what):
        sh.violation('C19/' + key, '%s [history so far: %r]' % (what, log[-12:]), {'part': 'A', 'log': list(log)})

    for step in range(steps):
        r = rng.random()
        if r < 0.06:
            # one request is held inside its endpoint while one to three others are served completely; then it finishes
            import threading
            hx = ('crash-%d' if rng.chance(0.3) else 'h-%d') % step
            gate = _holds[hx] = {'entered': threading.Event(), 'release': threading.Event()}
            box = {}

            def held():
                box['ex'] = probe.request(app, 'GET', '/hold/' + hx, token='held%d' % step, trace=spies.new_trace())
            th = threading.Thread(target=held)
            th.start()
            if not gate['entered'].wait(30):
                gate['release'].set()
                th.join(30)
                raise RuntimeError('held request never reached its endpoint')
            inner = [rng.pick(REQS) for _ in range(rng.randint(1, 3))]
            try:
                for kind, method, path, reached in inner:
                    ex = probe.request(app, method, path, token='t%d' % step, trace=spies.new_trace())
                    log.append([method, path, 'while /hold/%s is being served' % hx])
                    if ex.exc is not None:
                        fail('exception-escaped', '%s %s: %s escaped' % (method, path, probe.safe_repr(ex.exc)))
                        return
                    for p, st in reached:
                        model[(p, st)] += 1
            finally:
                gate['release'].set()
                th.join(30)
                _holds.pop(hx, None)
            log.append(['GET', '/hold/' + hx])
            if box.get('ex') is None or box['ex'].exc is not None:
                fail('exception-escaped', 'GET /hold/%s: %s' % (hx, probe.safe_repr(box['ex'].exc) if box.get('ex') else 'no answer'))
                return
            model[('/hold/<x>', 'RuntimeError' if hx.startswith('crash') else '200')] += 1
            sh.hit('A:overlapping-requests')
            nontrivial = True
        elif r < 0.72:
            kind, method, path, reached = rng.pick(REQS)
            tr = spies.new_trace()
            ex = probe.request(app, method, path, token='t%d' % step, trace=tr)
            log.append([method, path])
            sh.hit('A:outcome:' + kind)
            if ex.exc is not None:
                fail('exception-escaped', '%s %s: %s escaped' % (method, path, probe.safe_repr(ex.exc)))
                return
            # ground truth of which routes were reached: the endpoints' own log (+ the catch-all, which has no spy)
            spy_reached = [e[1] for e in tr['events'] if e[0] == 'reached']
            expected_spy = [p for p, _ in reached if p != '/<_ignored*>']
            if spy_reached != expected_spy:
                # which routes a request reaches is fixed by the dispatch rules (C06); on the unchanged tree the table and
                # the endpoints' own log agree for every request of the catalogue.  A request that runs a route twice (or
                # not at all) cannot be "counted exactly once for that route" in any meaningful way
                fail('request-reached-routes-differently', '%s %s ran the endpoints of %r, the dispatch rules say %r'
                     % (method, path, spy_reached, expected_spy))
                return
            for p, st in reached:
                model[(p, st)] += 1
            if kind not in ('200',):
                nontrivial = True
        elif r < 0.9:
            report, err = read_report(app)
            log.append(['GET', '/_stats/'])
            if err:
                fail('stats-page-failed', err)
                return
            sh.hit('A:reports-compared')
            want = dict((k, v) for k, v in model.items() if v)
            if report != want:
                diff = dict((k, (report.get(k), want.get(k))) for k in set(report) | set(want) if report.get(k) != want.get(k))
                fail('counts-differ', 'report vs model (reported, expected): %r' % diff)
                return
            model[('/_stats/', '200')] += 1
        else:
            ex = probe.request(app, 'POST', '/_stats/reset', 'format=json', trace=spies.new_trace())
            log.append(['POST', '/_stats/reset'])
            sh.hit('A:resets')
            nontrivial = True
            if ex.exc is not None or ex.status != 200:
                fail('reset-failed', 'status %s exc %s' % (ex.status, probe.safe_repr(ex.exc) if ex.exc else None))
                return
            data = json.loads(ex.body.decode('utf8'))
            totals = {}
            for pattern, sts in data['route_stats'].items():
                for k, v in sts.items():
                    totals[(pattern, norm_key(k))] = v['count']
            want = dict((k, v) for k, v in model.items() if v)
            with_self = dict(want)
            with_self[('/_stats/reset', '200')] = with_self.get(('/_stats/reset', '200'), 0) + 1
            if totals == want:
                model = collections.Counter({('/_stats/reset', '200'): 1})       # own hit lands in the new epoch
            elif totals == with_self:
                model = collections.Counter()
            else:
                diff = dict((k, (totals.get(k), want.get(k))) for k in set(totals) | set(want) if totals.get(k) != want.get(k))
                fail('reset-totals-differ', 'reset returned (reported, expected): %r' % diff)
                return
    report, err = read_report(app)
    if err:
        fail('stats-page-failed', err)
        return
    want = dict((k, v) for k, v in model.items() if v)
    sh.hit('A:reports-compared')
    if report != want:
        diff = dict((k, (report.get(k), want.get(k))) for k in set(report) | set(want) if report.get(k) != want.get(k))
        fail('counts-differ', 'final report vs model (reported, expected): %r' % diff)
        return
    sh.case({'part': 'A', 'log': log}, nontrivial=nontrivial, klass='A:history', sample={'steps': log[:10], 'final': sorted(map(str, want.items()))[:8]})


def part_a_long(sh, rng):
    """one route hit more often than its sample store can hold: counts are exact, samples are bounded"""
    app, mw = build_app()
    n_ok = 2 ** 14 + rng.randint(5, 400)
    n_deny = rng.randint(3, 40)
    for i in range(n_ok):
        probe.request(app, 'GET', '/ok', trace=spies.new_trace())
        if i < n_deny:
            probe.request(app, 'GET', '/deny', trace=spies.new_trace())
    report, err = read_report(app)
    sh.hit('A:reports-compared')
    sh.hit('A:count-beyond-sample-capacity')
    sh.case({'part': 'A-long', 'n_ok': n_ok, 'n_deny': n_deny}, nontrivial=True, klass='A:long-history',
            sample={'requests_to_/ok': n_ok, 'requests_to_/deny': n_deny, 'report': str(sorted(report.items())) if report else err})
    want = {('/ok', '200'): n_ok, ('/deny', '403'): n_deny}
    if err or report != want:
        sh.violation('C19/counts-differ:beyond-sample-capacity', 'after %d requests to /ok and %d to /deny the report says %r (%s)'
                     % (n_ok, n_deny, report, err), {'part': 'A-long'})


# ---- part B ----------------------------------------------------------------------------------------------------------
_contract = {'installed': False, 'evaluations': 0, 'unavailable': 0, 'broken': []}


class InvariantBroken(Exception):
    pass


def size_within_capacity(self):
    _contract['evaluations'] += 1
    try:
        ok = len(self.to_list()) <= self._cap
    except AttributeError:
        _contract['unavailable'] += 1
        return True
    if not ok:
        _contract['broken'].append('len %d > cap %r' % (len(self.to_list()), self._cap))
    return True      # record, never abort what is being observed (the shadow model reports)


def install_contract():
    if _contract['installed']:
        return
    _contract['installed'] = True
    try:
        setup_paths()
        import icontract
        from clastic.middleware import stats
        icontract.invariant(size_within_capacity, error=InvariantBroken)(stats.Reservoir)
        _contract['lib'] = 'icontract ' + getattr(icontract, '__version__', '?')
    except Exception as e:       # the shadow model below still decides
        _contract['lib'] = 'unavailable: %r' % e


VKINDS = ['str', 'str', 'int-from-zero', 'float-from-zero', 'empty-tuple-first', 'empty-str-first', 'none-first', 'false-first', 'empty-bytes-first']


def value_of(vkind, k):
    """the k-th value (k from 1) a history adds: unique within the history; the first ones are falsy for most kinds - a value
    is a value whatever its truth value"""
    if vkind == 'int-from-zero':
        return k - 1
    if vkind == 'float-from-zero':
        return (k - 1) * 0.5
    if k == 1 and vkind != 'str':
        return {'empty-tuple-first': (), 'empty-str-first': '', 'none-first': None, 'false-first': False, 'empty-bytes-first': b''}[vkind]
    return 'v%d' % k


def part_b_history(sh, rng, seed, default_cap=False):
    from clastic.middleware.stats import Reservoir
    random.seed(seed)
    ops = []
    if default_cap:
        cap = 2 ** 14
        r = Reservoir()
    added, n_added, counter = set(), 0, [0]
    initial = 0
    vkind = 'str' if default_cap else rng.pick(VKINDS)
    sh.hit('B:values:' + vkind)
    if default_cap:
        pass
    else:
        cap = rng.randint(1, 8)
        if rng.chance(0.35):
            # values handed to the constructor arrive like any others
            initial = rng.pick([0, 1, cap - 1, cap, cap + 1, cap * 3, cap * 10])
            data = [value_of(vkind, i + 1) for i in range(initial)]
            counter[0] = n_added = initial
            added.update(data)
            try:
                r = Reservoir(cap, data=rng.pick([data, tuple(data), iter(data)]))
            except Exception as e:
                sh.violation('C19/store-raises:new', 'Reservoir(%d, data=<%d values>) raised %s: %s' % (cap, initial, type(e).__name__, e),
                             {'part': 'B', 'ops': [['new', cap, initial]], 'seed': seed, 'default_cap': False})
                return
            sh.hit('B:constructed-with-data')
        else:
            r = Reservoir(cap)
    ops.append(['new', cap, initial])
    shrunk = grown_after_shrink = False
    nontrivial = False

    def fail(key, what):
        sh.violation('C19/' + key, '%s [ops: %r, random.seed(%d)]' % (what, ops[-15:], seed),
                     {'part': 'B', 'ops': list(ops), 'seed': seed, 'default_cap': default_cap, 'vkind': vkind})

    def check(after):
        sh.hit('B:ops-checked')
        try:
            content = list(r)
            total = r.total_count
        except Exception as e:
            fail('store-raises', '%s raised %r' % (after, e))
            return False
        if len(content) > cap:
            fail('store-exceeds-capacity', 'after %s the store holds %d values, capacity %d' % (after, len(content), cap))
            return False
        if total != n_added:
            fail('store-miscounts', 'after %s total_count is %r, %d values were added' % (after, total, n_added))
            return False
        foreign = [v for v in content if v not in added]
        if foreign:
            fail('store-foreign-values', 'after %s the store contains %r, never added' % (after, foreign[:3]))
            return False
        if len(set(content)) != len(content):
            fail('store-duplicates', 'after %s the store holds a value twice (values are unique)' % after)
            return False
        if _contract['broken']:
            fail('store-exceeds-capacity', 'icontract invariant: %s' % _contract['broken'][0])
            del _contract['broken'][:]
            return False
        return True
    if initial and not check(ops[-1]):
        return
    n_ops = rng.randint(5, 60) if not default_cap else 6
    for _ in range(n_ops):
        c = rng.random()
        if c < 0.7:
            burst = rng.pick([1, 1, 2, cap, cap * 3, cap * 10, cap * 40]) if not default_cap else rng.pick([cap // 2, cap, 3000])
            for _ in range(burst):
                counter[0] += 1
                v = value_of(vkind, counter[0])
                added.add(v)
                n_added += 1
                try:
                    r.add(v)
                except Exception as e:
                    ops.append(['add', repr(v)])
                    fail('store-raises:add', 'add(%r) raised %s: %s' % (v, type(e).__name__, e))
                    return
            ops.append(['add x%d' % burst])
            if n_added > cap:
                sh.hit('B:stores-driven-past-capacity')
                if default_cap:
                    sh.hit('B:default-capacity-filled')
            if grown_after_shrink:
                sh.hit('B:shrink-then-grow')
        elif c < 0.9:
            new = rng.randint(1, 12) if not default_cap else rng.pick([100, 2 ** 14, 2 ** 15, 5000])
            if new < cap:
                shrunk = True
            elif new > cap and shrunk:
                grown_after_shrink = True
            cap = new
            nontrivial = True
            try:
                r.resize(new)
            except Exception as e:
                ops.append(['resize', new])
                fail('store-raises:resize', 'resize(%d) raised %r' % (new, e))
                return
            ops.append(['resize', new])
        else:
            ops.append(['iterate'])
        if not check(ops[-1]):
            return
    sh.case({'part': 'B', 'ops': ops, 'seed': seed}, nontrivial=nontrivial or n_added > cap, klass='B:reservoir',
            sample={'ops': ops[:10], 'seed': seed, 'final_len': len(list(r)), 'total_count': r.total_count})


def part_b_routestat(sh, rng, seed):
    from clastic.middleware.stats import RouteStatReservoir, Hit
    random.seed(seed)
    r = RouteStatReservoir()
    n = rng.randint(1, 400)
    total = 0.0
    last = None
    for i in range(n):
        h = Hit(1000.0 + i, '/u/%d' % i, '/u/<x>', '200', rng.random(), 'text/plain')
        total += h.duration
        last = h.start_time
        r.add(h)
    sh.hit('B:route-stat-reservoir')
    sh.case({'part': 'B-routestat', 'n': n, 'seed': seed}, nontrivial=True, klass='B:route-stat')
    if r.total_count != n or r.last_hit != last or abs(r.total_duration - total) > 1e-6 or len(list(r)) != n:
        sh.violation('C19/route-stat-reservoir', 'after %d hits: total_count %r, last_hit %r (expected %r), total_duration %r (expected %r)'
                     % (n, r.total_count, r.last_hit, last, r.total_duration, total), {'part': 'B-routestat', 'n': n, 'seed': seed})


def plan(tier, seed):
    specs = [{'label': 'rand-%d' % i, 'index': i, 'a': 32 if tier == 'quick' else 3200, 'b': 700 if tier == 'quick' else 125000,
              'timeout': 7200} for i in range(NSHARDS)]
    # the default 16 384-slot store, without the per-call invariant (it copies the store on every call)
    # counts beyond the per-status sample capacity (2**14): the report must keep counting
    specs += [{'label': 'A-long-%d' % i, 'index': i, 'kind': 'A-long', 'timeout': 7200} for i in range(1 if tier == 'quick' else 4)]
    specs += [{'label': 'default-cap-%d' % i, 'index': i, 'kind': 'default-cap', 'n': 2 if tier == 'quick' else 40, 'timeout': 7200}
              for i in range(2)]
    return specs


def run_shard(sh, spec):
    rng = Rng(spec['seed'], PROPERTY, spec['label'])
    if spec.get('kind') == 'A-long':
        part_a_long(sh, rng)
        return
    if spec.get('kind') == 'default-cap':
        for _ in range(spec['n']):
            part_b_history(sh, rng, rng.randrange(1 << 30), default_cap=True)
        return
    install_contract()
    for _ in range(spec['a']):
        part_a_history(sh, rng, rng.randint(5, 60))
    for i in range(spec['b']):
        part_b_history(sh, rng, rng.randrange(1 << 30))
    for i in range(20):
        part_b_routestat(sh, rng, rng.randrange(1 << 30))
    sh.hit('B:invariant-evaluations', _contract['evaluations'])
    sh.notes['contract'] = {'library': _contract.get('lib'), 'evaluations': _contract['evaluations'],
                            'attribute-unavailable': _contract['unavailable']}


def replay(sh, case, spec):
    install_contract()
    if case.get('part') == 'A-long':
        part_a_long(sh, Rng(0, 'replay'))
        return
    if case.get('part') == 'A':
        app, mw = build_app()
        for entry in case['log']:
            method, path = entry[:2]
            probe.request(app, method, path, 'format=json', trace=spies.new_trace())
        sh.notes['report'] = str(read_report(app))
        rng = Rng(0, 'replay')
        for _ in range(50):
            part_a_history(sh, rng, 40)
        return
    if case.get('part') == 'B':
        from clastic.middleware.stats import Reservoir
        random.seed(case['seed'])
        r = None
        n = 0
        try:
            for op in case['ops']:
                if op[0] == 'new':
                    r = Reservoir(op[1]) if not case.get('default_cap') else Reservoir()
                    if len(op) > 2 and op[2]:
                        n = op[2]
                        r = Reservoir(op[1], data=[value_of(case.get('vkind', 'str'), i + 1) for i in range(n)])
                elif op[0].startswith('add x'):
                    for _ in range(int(op[0][5:])):
                        n += 1
                        r.add(value_of(case.get('vkind', 'str'), n))
                elif op[0] == 'add':
                    n += 1
                    r.add(value_of(case.get('vkind', 'str'), n))
                elif op[0] == 'resize':
                    r.resize(op[1])
            sh.notes['final'] = repr(r)
        except Exception as e:
            sh.violation('C19/store-raises:add', 'replayed ops raised %r' % e, case)
