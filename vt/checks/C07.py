# -*- coding: utf-8 -*-
"""C07 - trailing-slash redirects lead to the same resource in one hop.

Monitor: the exchange at the WSGI boundary (status, Location) and the exchange obtained by
requesting that Location, judged by an independent canonicalisation function and an independent
model of the effective slash mode."""
import json
import re
from urllib.parse import urlsplit, unquote_to_bytes

from ..common import Rng
from .. import probe, spies

PROPERTY = 'C07'
LEVEL = 'exploration'
RULE = ('cases are (application tree, route, request): branch and leaf routes with static, single and multi '
        'bindings; slash mode set at application level, route level (opt-out of inheritance) and through one or two '
        'embeddings with inherit_slashes on/off; SCRIPT_NAME empty or set; decoded path segments from a list of '
        'URL-significant texts plus random text, with slash noise (doubled, missing trailing, multiple trailing); '
        'ASCII query strings incl. %41, ?, &, =, ;, +; every HTTP method; a case is non-trivial when the request '
        'reaches a route (pattern and method) through a path that differs from its canonical form or is answered by a '
        'redirect; distinct by hash of the case')
ASSUMPTIONS = ['slashes repeated at the very start of PATH_INFO are folded by Werkzeug before clastic sees the path: '
               'such requests are judged on the folded path (DESIGN.md O13)',
               'int-typed multi bindings are not used here (their handling of repeated slashes is the C05 known finding)',
               'an empty query with or without "?" is the same query']
REQUIRED_REACH = ['redirect:issued', 'redirect:followed-ok', 'redirect:significant-chars', 'canonical:no-redirect',
                  'strict:noncanonical-not-matched', 'rewrite:executed-directly', 'method-not-admitted:no-redirect',
                  'leaf:no-redirect', 'mode-source:app', 'mode-source:route-optout', 'mode-source:embedding-inherit',
                  'mode-source:embedding-optout', 'script-name:set', 'query:nonempty', 'warmup-request-with-other-query']
NSHARDS = 16
MODES = ['redirect', 'rewrite', 'strict']
SEGS = ['abc', 'a b', 'a?b', 'a#b', 'a%b', 'a%41b', 'a;b', 'a&b=c', 'é', 'a+b', '..', '%2F', '.', 'a=b', 'a"b', "a'b",
        'a<b>', 'ü-ñ', '%', '??', '#', 'x@y:z', '~t', 'a,b', '日本', '%zz', 'a\\b', '[x]', '{y}', 'a|b', '^', '`',
        # text that Unicode normalisation would rewrite (decomposed accents, conjoining jamo, compatibility characters)
        'cafe\u0301', '\u1112\u1161\u11ab', '\u212b', 'ﬁ', 'A\u030a', '\u2126hm']
QUERIES = ['', 'k=v', 'a=1&b=2', 'x=%41', 'q=a+b', 'q=a%20b', 'u=http://x/y?z=1', 'a;b', 'x=%E9', 'empty=', '=', '&&', 'k=v?w',
           'a=1&a=2', 'x=%2F%2F', 'tags[]=a&tags[]=b', 'a[0]=1', 'q=[x]&r={y}', "q='1'&z=(2)", 'q=a|b^c`d', 'q=what?', '?', 'a=1&b=??', 'next=/item/k/?', 'q=%3F', '&', 'q=a&', 'x=1;']
METHODS = ['GET', 'HEAD', 'POST', 'PUT', 'DELETE', 'OPTIONS', 'PATCH', 'TRACE', 'CONNECT']
ROUTES = [
    # (label, pattern, kind)
    ('sb', '/s/', 'static'), ('sl', '/s', 'static'),
    ('ub', '/u/<x>/', 'single'), ('ul', '/u/<x>', 'single'),
    ('mb', '/m/<p+>/', 'multi'), ('ml', '/m/<p*>', 'multi'),
    ('db', '/d/<x>/t/<y>/', 'double'), ('ib', '/i/<n:int>/', 'int'),
]


def canonical(path, branch):
    segs = [s for s in path.split('/') if s]
    if not segs:
        return '/'
    return '/' + '/'.join(segs) + ('/' if branch else '')


def make_ep(label, names):
    from clastic import Response
    src = ('def ep_%s(request%s):\n    return _mk(request, dict(%s))\n'
           % (label, ''.join(', ' + n for n in names), ', '.join('%s=%s' % (n, n) for n in names)))

    def _mk(request, params):
        body = json.dumps({'rid': label, 'params': params, 'query': request.query_string.decode('latin-1'),
                           'path': request.path})
        return Response(body, mimetype='application/json')
    ns = {'_mk': _mk}
    exec(src, ns)
    return ns['ep_' + label]


def names_of(pattern):
    from ..models import urlmatch as um
    return [e[1] for e in um.parse(pattern)[0] if e[0] == 'bind']


def build_tree(case):
    """case['levels']: outermost first, each {'mode', 'prefix', 'inherit'} ('inherit' = how the level
    below it is embedded); case['route']: {'label','pattern','mode','inherit','methods'}"""
    from clastic import Application, Route, SubApplication
    r = case['route']
    kw = {}
    if r.get('methods'):
        kw['methods'] = r['methods']
    route = Route(r['pattern'], make_ep(r['label'], names_of(r['pattern'])), slash_mode=r['mode'], **kw)
    levels = case['levels']
    inner = Application([], slash_mode=levels[-1]['mode'])
    if case.get('leaf_sibling'):
        # an earlier route on the same path without the trailing slash, for a method (TRACE) that requests to such a tree never use: it is
        # passed over, and what it is (a leaf) must not rub off on the branch route that follows
        leaf = Route(r['pattern'].rstrip('/') or '/', make_ep(r['label'] + '_leaf', names_of(r['pattern'])), slash_mode=r['mode'],
                     methods=['TRACE'])
        inner.add(leaf, inherit_slashes=r['inherit'])
    inner.add(route, inherit_slashes=r['inherit'])
    for k in range(len(levels) - 2, -1, -1):
        lv = levels[k]
        inner = Application([SubApplication(lv['prefix'], inner, inherit_slashes=lv['inherit'])],
                            slash_mode=lv['mode'])
    return inner


_URI_QUERY_CHARS = set("abcdefghijklmnopqrstuvwxyzABCDEFGHIJKLMNOPQRSTUVWXYZ0123456789-._~!$&'()*+,;=:@/?%")


def query_changed(sent, got):
    """'the query string unchanged': byte for byte when every character of it may stand in a URI query as it is (RFC 3986:
    pchar, '/', '?'); characters that may not ('[', ']', '{', '}', '|', '^', '`', blanks, quotes, ...) have to be escaped to
    put the query into a Location at all - then the escaped query must still say the same: same bytes after
    percent-decoding, same parameters"""
    if sent == got:
        return None
    if set(sent) <= _URI_QUERY_CHARS and not re.search(r'%(?![0-9A-Fa-f]{2})', sent):
        return 'every character of the query is a URI query character, yet it was rewritten'
    from urllib.parse import parse_qsl, unquote_to_bytes as u2b
    if u2b(sent) != u2b(got):
        return 'it does not decode to the same bytes'
    if parse_qsl(sent, keep_blank_values=True, encoding='latin-1') != parse_qsl(got, keep_blank_values=True, encoding='latin-1'):
        return 'it does not parse into the same parameters'
    if re.search(r'[^\x21-\x7e]', got) or any(c in got for c in '"<>\\^`{|}'):
        return 'it is not a valid URI query'
    return None


def effective_mode(case):
    levels = case['levels']
    for k in range(len(levels) - 1):
        if levels[k]['inherit']:
            return levels[k]['mode'], 'embedding-inherit'
    if case['route']['inherit']:
        return levels[-1]['mode'], ('app' if len(levels) == 1 else 'embedding-optout')
    return case['route']['mode'], 'route-optout'


def expected_params(kind, segs):
    if kind == 'static':
        return {}
    if kind == 'single':
        return {'x': segs[0]}
    if kind == 'int':
        return {'n': int(segs[0])}
    if kind == 'double':
        return {'x': segs[0], 'y': segs[1]}
    return {'p': list(segs)}


def gen_case(rng):
    label, pattern, kind = rng.pick(ROUTES)
    nlev = rng.pick([1, 1, 2, 2, 3])
    levels = [{'mode': rng.pick(MODES), 'prefix': rng.pick(['/e%d' % k, '/e%d/' % k, '/e%d/sub' % k, '/e%d' % k, '/']),
               'inherit': rng.chance(0.6)} for k in range(nlev)]
    route = {'label': label, 'pattern': pattern, 'kind': kind, 'mode': rng.pick(MODES), 'inherit': rng.chance(0.65),
             'methods': rng.pick([None, None, ['GET'], ['POST'], ['GET', 'POST']])}
    if rng.chance(0.5):       # bias towards the mode the property is about
        if nlev > 1 and levels[0]['inherit']:
            levels[0]['mode'] = 'redirect'
        elif route['inherit'] and (nlev == 1 or not any(l['inherit'] for l in levels[:-1])):
            levels[-1]['mode'] = 'redirect'
        else:
            route['mode'] = 'redirect'
    # decoded segments of the request
    if kind == 'static':
        segs = []
    elif kind == 'single':
        segs = [seg(rng)]
    elif kind == 'int':
        segs = [rng.pick(['5', '-12', '+7', '0', '007'])]
    elif kind == 'double':
        segs = [seg(rng), seg(rng)]
    else:
        segs = [seg(rng) for _ in range(rng.randint(1, 4))]
    case = {'levels': levels, 'route': route, 'segs': segs, 'noise': rng.pick(NOISES),
            'query': rng.pick(QUERIES) if rng.chance(0.7) else '', 'method': rng.pick(METHODS + ['GET'] * 6 + ['POST'] * 3),
            'script': rng.pick(['', '', '/mount', '/m/n', '/café x']),
            'warmup': rng.pick(['first=1&page=2', 'z', '']) if rng.chance(0.3) else None}
    # (in strict mode a leaf twin would turn the 404 of a slash-less path into a 405: another question, not asked here)
    case['leaf_sibling'] = pattern.endswith('/') and pattern != '/' and effective_mode(case)[0] != 'strict' and rng.chance(0.35)
    if case['leaf_sibling'] and case['method'] == 'TRACE':
        case['method'] = 'GET'
    return case


NOISES = ['canonical', 'no-trailing', 'double-inner', 'double-trailing', 'triple-trailing', 'double-everything',
          'leaf-form', 'inner-and-missing']


def seg(rng):
    if rng.chance(0.7):
        return rng.pick(SEGS)
    alphabet = 'ab?#%&=;+ é/\\.~:@!$\'()*,"<>[]{}|^`'
    s = ''.join(rng.pick(alphabet) for _ in range(rng.randint(1, 6))).replace('/', '_')
    return s or 'x'


def decoded_request_path(case):
    """the decoded path below SCRIPT_NAME the client asks for, and the route-relative pieces"""
    prefix_segs = []
    for lv in case['levels'][:-1]:
        prefix_segs += [s for s in lv['prefix'].split('/') if s]
    r = case['route']
    lit = {'static': ['s'], 'single': ['u'], 'multi': ['m'], 'int': ['i']}.get(r['kind'])
    if r['kind'] == 'double':
        segs = ['d', case['segs'][0], 't', case['segs'][1]]
    else:
        segs = lit + list(case['segs'])
    allsegs = prefix_segs + segs
    noise = case['noise']
    branch = r['pattern'].endswith('/')
    sep = '//' if noise in ('double-inner', 'double-everything', 'inner-and-missing') else '/'
    body = '/' + sep.join(allsegs)
    if noise == 'canonical':
        path = body + ('/' if branch else '')
    elif noise in ('no-trailing', 'leaf-form', 'inner-and-missing'):
        path = body
    elif noise == 'double-inner':
        path = body + ('/' if branch else '')
    elif noise == 'double-trailing':
        path = body + '//'
    elif noise == 'triple-trailing':
        path = body + '///'
    else:
        path = body + '//'
    return path, branch


_tree_cache = {}


def cached_tree(case):
    """one long-lived application per tree description: caches and memos inside the framework get a chance to go stale"""
    key = json.dumps([case['levels'], case['route'], bool(case.get('leaf_sibling'))], sort_keys=True)
    if key not in _tree_cache:
        if len(_tree_cache) > 400:
            _tree_cache.clear()
        _tree_cache[key] = build_tree(case)
    return _tree_cache[key]


def judge(sh, case, record=True):
    try:
        app = cached_tree(case)
    except Exception as e:
        sh.violation('C07/construction-failed', 'building the tree raised %r' % e, case)
        return
    mode, source = effective_mode(case)
    path, branch = decoded_request_path(case)
    r = case['route']
    method = case['method']
    canon = canonical(path, branch)
    admitted = (not r['methods']) or method in r['methods'] or (method == 'HEAD' and 'GET' in r['methods'])
    noncanonical = path != canon
    script = case['script']
    if case.get('warmup') is not None:
        # the same path asked for before with another query string (and another method): nothing may stick
        probe.call_wsgi(app, probe.make_environ('GET', path, case['warmup'], script_name=probe.wsgi_str(script)))
        sh.hit('warmup-request-with-other-query')
    env = probe.make_environ(method, path, case['query'], script_name=probe.wsgi_str(script))
    ex = probe.call_wsgi(app, env)
    sh.hit('mode-source:' + source)
    if script:
        sh.hit('script-name:set')
    if case['query']:
        sh.hit('query:nonempty')
    nontrivial = False
    key = None

    def bad(k, what):
        sh.violation('C07/' + k, '%s %r ?%s [%s via %s, route %s %s, methods %s] -> %s' % (
            method, path, case['query'], mode, source, r['label'], r['pattern'], r['methods'], what), case)

    if ex.exc is not None:
        bad('exception-escaped', 'escaped %r' % ex.exc)
        return
    is_redirect = ex.status in (301, 302, 303, 307, 308)
    if mode == 'strict':
        # strict: only the exact pattern form matches
        exact = (path == canon)
        if not exact:
            sh.hit('strict:noncanonical-not-matched')
            nontrivial = True
            if is_redirect:
                bad('redirect-in-strict-mode', 'status %s Location %r' % (ex.status, ex.header('Location')))
            elif ex.status == 200:
                bad('strict-matched-noncanonical', '200 %r' % ex.body[:120])
        elif not admitted:
            if ex.status != 405:
                bad('unadmitted-method-status', 'status %s' % ex.status)
        else:
            check_direct(sh, case, ex, admitted, bad)
    elif not admitted:
        sh.hit('method-not-admitted:no-redirect')
        nontrivial = noncanonical
        if is_redirect:
            bad('redirect-for-unadmitted-method', 'status %s Location %r' % (ex.status, ex.header('Location')))
        elif ex.status != 405:
            bad('unadmitted-method-status', 'status %s' % ex.status)
    elif not branch:
        sh.hit('leaf:no-redirect')
        nontrivial = noncanonical
        if is_redirect:
            bad('redirect-on-leaf-route', 'status %s Location %r' % (ex.status, ex.header('Location')))
        else:
            check_direct(sh, case, ex, admitted, bad)
    elif mode == 'rewrite':
        sh.hit('rewrite:executed-directly')
        nontrivial = noncanonical
        if is_redirect:
            bad('redirect-in-rewrite-mode', 'status %s Location %r' % (ex.status, ex.header('Location')))
        else:
            check_direct(sh, case, ex, admitted, bad)
    elif not noncanonical:
        sh.hit('canonical:no-redirect')
        if is_redirect:
            bad('redirect-for-canonical-path', 'status %s Location %r' % (ex.status, ex.header('Location')))
        else:
            check_direct(sh, case, ex, admitted, bad)
    else:
        # redirect mode, branch route, admitted method, non-canonical path: must redirect
        nontrivial = True
        if not is_redirect:
            bad('no-redirect', 'status %s body %r' % (ex.status, ex.body[:100]))
        else:
            sh.hit('redirect:issued')
            if any(c in ''.join(case['segs']) for c in '?#%; &=+"<>') or any(ord(c) > 127 for c in ''.join(case['segs'])):
                sh.hit('redirect:significant-chars')
            check_location(sh, case, app, ex, canon, bad)
    if record:
        sh.case(case, nontrivial=nontrivial, klass='%s-%s-%s' % (mode, 'branch' if branch else 'leaf', case['noise']),
                sample={'route': r, 'levels': case['levels'], 'method': method, 'path': path, 'query': case['query'],
                        'script': script, 'effective_mode': mode, 'status': ex.status,
                        'location': ex.header('Location')})


def check_direct(sh, case, ex, admitted, bad):
    if ex.status != 200:
        bad('direct-execution-failed', 'expected the route to answer 200, got %s %r' % (ex.status, ex.body[:100]))
        return
    if case['method'] == 'HEAD':
        return
    try:
        got = json.loads(ex.body.decode('utf8'))
    except Exception:
        bad('direct-execution-failed', 'unparsable body %r' % ex.body[:100])
        return
    exp = expected_params(case['route']['kind'], case['segs'])
    gp = got.get('params')
    if isinstance(gp, dict) and 'p' in gp and isinstance(gp['p'], list) and '' in gp['p']:
        sh.hit('c05-known:empty-piece-in-multi-binding')
        gp = dict(gp, p=[x for x in gp['p'] if x != ''])
    if got.get('rid') != case['route']['label'] or gp != exp:
        bad('direct-execution-wrong-params', 'route %r got params %r, expected %r' % (got.get('rid'), got.get('params'), exp))
    elif got.get('query') != case['query']:
        bad('direct-execution-wrong-query', 'endpoint saw query %r' % got.get('query'))


def check_location(sh, case, app, ex, canon, bad):
    loc = ex.header('Location')
    script = case['script']
    if loc is None:
        bad('redirect-without-location', 'no Location header')
        return
    try:
        loc.encode('ascii')
    except UnicodeError:
        bad('location-not-ascii', 'Location %r' % loc)
        return
    # a relative reference is resolved against the request URL, as a client does (RFC 7231 7.1.2)
    from urllib.parse import urljoin, quote
    base = 'http://verif.test' + quote(probe.wsgi_str(script).encode('latin-1')) + '/'
    sp = urlsplit(urljoin(base, loc))
    if sp.scheme != 'http' or sp.netloc != 'verif.test':
        bad('location-other-origin', 'Location %r' % loc)
        return
    if sp.fragment or '#' in loc:
        bad('location-wrong-path', 'Location %r has a fragment (expected path %r)' % (loc, script + canon))
        return
    try:
        decoded = unquote_to_bytes(sp.path).decode('utf8')
    except UnicodeError:
        bad('location-wrong-path', 'Location %r path is not UTF-8' % loc)
        return
    if decoded != script + canon:
        bad('location-wrong-path', 'Location %r decodes to path %r, expected %r' % (loc, decoded, script + canon))
        return
    problem = query_changed(case['query'], sp.query)
    if problem:
        bad('location-wrong-query', 'Location %r carries query %r, request had %r: %s' % (loc, sp.query, case['query'], problem))
        return
    if sp.query != case['query']:
        sh.hit('query-escaped-where-a-URI-needs-it')
    # follow it: what a client would send for that Location
    full = unquote_to_bytes(sp.path).decode('latin-1')
    sn = probe.wsgi_str(script)
    if not full.startswith(sn):
        bad('location-wrong-path', 'Location %r leaves the script root %r' % (loc, script))
        return
    env2 = probe.make_environ(case['method'], full[len(sn):], sp.query, script_name=sn, raw_path=True)
    ex2 = probe.call_wsgi(app, env2)
    if ex2.exc is not None:
        bad('followup-exception', 'following %r raised %r' % (loc, ex2.exc))
        return
    if ex2.status in (301, 302, 303, 307, 308):
        bad('second-redirect', 'following %r gave another redirect to %r' % (loc, ex2.header('Location')))
        return
    if ex2.status != 200:
        bad('followup-not-served', 'following %r gave %s' % (loc, ex2.status))
        return
    sh.hit('redirect:followed-ok')
    if case['method'] == 'HEAD':
        return
    got = json.loads(ex2.body.decode('utf8'))
    exp = expected_params(case['route']['kind'], case['segs'])
    if got.get('rid') != case['route']['label'] or got.get('params') != exp:
        bad('followup-wrong-resource', 'following %r reached %r with %r, expected %r with %r'
            % (loc, got.get('rid'), got.get('params'), case['route']['label'], exp))
    elif query_changed(case['query'], got.get('query') or ''):
        bad('followup-wrong-query', 'following %r delivered query %r: %s' % (loc, got.get('query'), query_changed(case['query'], got.get('query') or '')))


def hostile_queries(sh, rng, n):
    """raw (non-ASCII / non-UTF-8 / spaced) query bytes: the redirect must still be produced and keep the bytes"""
    from clastic import Application, Route
    app = Application([Route('/u/<x>/', make_ep('ub', ['x']))])
    for _ in range(n):
        q = rng.pick(['\xff', 'x=\xe9', 'a=b c', 'k=\xc3\xa9', '\x80\x81', 'a=%ZZ', 'x=\xed\xa0\x80'])
        case = {'hostile_query': q}
        ex = probe.request(app, 'GET', '/u/abc', q)
        sh.case(case, nontrivial=True, klass='hostile-query')
        sh.hit('hostile-query')
        if ex.exc is not None:
            sh.violation('C07/raw-query-bytes-crash', 'GET /u/abc?%r: %r escaped instead of a redirect' % (q, ex.exc), case)
            continue
        if ex.status not in (301, 302, 303, 307, 308):
            sh.violation('C07/no-redirect', 'GET /u/abc?%r -> %s' % (q, ex.status), case)
            continue
        loc = ex.header('Location') or ''
        sp = urlsplit(loc)
        if unquote_to_bytes(sp.query) != unquote_to_bytes(q.encode('latin-1')) and sp.query != q:
            sh.violation('C07/raw-query-bytes-altered', 'GET /u/abc?%r -> Location %r changes the query bytes' % (q, loc), case)


def plan(tier, seed):
    return [{'label': 'rand-%d' % i, 'n': 1400 if tier == 'quick' else 125000, 'timeout': 7200} for i in range(NSHARDS)]


def run_shard(sh, spec):
    rng = Rng(spec['seed'], PROPERTY, spec['label'])
    pool = []
    for _ in range(spec['n']):
        case = gen_case(rng)
        if pool and rng.chance(0.5):
            # re-use the application of an earlier case (same tree, same route) with a fresh request
            old = rng.pick(pool)
            if old['route']['kind'] == case['route']['kind']:
                case['levels'], case['route'] = old['levels'], old['route']
                sh.hit('application-reused-across-cases')
        pool.append(case)
        if len(pool) > 60:
            pool.pop(0)
        judge(sh, case)
    hostile_queries(sh, rng, 40)


def replay(sh, case, spec):
    if 'hostile_query' in case:
        class R(object):
            def pick(self, seq):
                return case['hostile_query']
        hostile_queries(sh, R(), 1)
        return
    judge(sh, case, record=False)
    sh.notes['effective_mode'] = effective_mode(case)
    sh.notes['path'] = decoded_request_path(case)
