# -*- coding: utf-8 -*-
"""C01 - bind-time dependency check is sound and complete.

Monitor: constructor outcome (accept / exception type) of generated configurations compared with
the availability model in models/di.py; on every accepted configuration, requests that reach the
route and the catch-all are driven through the WSGI callable with a re-raising error handler and
any TypeError/NameError from a framework call site is a violation."""
from ..common import Rng
from .. import gen_di
from ._di_common import drive, replay_cfg

PROPERTY = 'C01'
LEVEL = 'exploration'
RULE = ('cases are route configurations (middleware stacks at application/route level with '
        'request/endpoint/render functions, signatures over {a,b,c,d}+built-ins in the kinds required/'
        'defaulted/keyword-only/positional-only, provides tuples, resources, URL bindings, seven callable '
        'forms); quick enumerates two small cores exhaustively (one middleware + endpoint (+render) over '
        '{a,b}, every kind, every provides/resources/bindings subset) and adds seeded random larger ones; '
        'a case is non-trivial unless the model already rejects it for a structural reason; distinct by '
        'hash of the canonical configuration')
EXHAUSTIVE = {'quick': 'core A (app-level request middleware x endpoint x provides x resources x bindings over {a,b}: '
                       '40 000 configurations), core B (route-level middleware phase x provides x endpoint x render) and core C '
                       '(two functions sharing one name, kind x kind, same chain or across chains, provided/resource/bound or not)',
              'thorough': 'cores A, B and C of the quick tier'}
ASSUMPTIONS = ['positional-only parameters: rejection at construction or correct injection both accepted (O4)',
               'configurations with a cycle among provided names: either construction outcome accepted',
               'names never start with an underscore except the documented built-ins (O12)']
REQUIRED_REACH = ['model:accept', 'model:reject-name', 'model:either', 'constructed', 'rejected',
                  'requests-on-accepted', 'accepted-with:kind:kwreq:endpoint', 'accepted-with:kind:kwdef:request',
                  'accepted-with:form:lambda', 'accepted-with:form:callable_object', 'accepted-with:form:decorated',
                  'accepted-with:form:classmethod', 'accepted-with:mw-app-request', 'accepted-with:mw-route-render',
                  'accepted-with:nested:2', 'accepted-with:built-via-add', 'rejected-by-add']
NSHARDS = 16


def plan(tier, seed):
    specs = []
    for i in range(NSHARDS):
        specs.append({'label': 'core-%d' % i, 'kind': 'core', 'index': i, 'of': NSHARDS,
                      'timeout': 1200 if tier == 'quick' else 7200})
        specs.append({'label': 'rand-%d' % i, 'kind': 'random', 'index': i,
                      'n': 1300 if tier == 'quick' else 125000, 'timeout': 1200 if tier == 'quick' else 7200})
    return specs


def run_shard(sh, spec):
    rng = Rng(spec['seed'], PROPERTY, spec['label'])
    if spec['kind'] == 'core':
        for cfg in gen_di.core_configs(('a', 'b'), spec['index'], spec['of']):
            drive(sh, PROPERTY, cfg, 'coreA', requests=('hit', '404'))
        for cfg in gen_di.core_configs_route_mw(('a', 'b'), spec['index'], spec['of']):
            drive(sh, PROPERTY, cfg, 'coreB', requests=('hit', '404'))
        for cfg in gen_di.core_pairs(spec['index'], spec['of']):
            drive(sh, PROPERTY, cfg, 'coreC', requests=('hit', '404'))
    else:
        for i in range(spec['n']):
            opts = {'deviate': rng.pick([0.0, 0.03, 0.06, 0.12]), 'p_nested': 0.25}
            cfg = gen_di.gen_config(rng, opts)
            drive(sh, PROPERTY, cfg, 'random')


def replay(sh, case, spec):
    replay_cfg(sh, PROPERTY, case)
