# -*- coding: utf-8 -*-
"""C15 - built-in middlewares never change what the client receives.

Monitor: paired exchanges.  The same scenario application is built with and without a stack of
built-in middlewares (application level, so they also run on the catch-all route); for every
request the status and the decoded body must be identical; for gzip additionally: the body
decompresses to the original bytes, Content-Length equals the bytes sent, Vary names
Accept-Encoding, and clients that do not accept gzip get the body untouched."""
import re
import gzip
import json
import zlib
import io

from ..common import Rng
from .. import probe

PROPERTY = 'C15'
LEVEL = 'exploration'
RULE = ('cases are (middleware stack, request): each built-in middleware alone (gzip, HTTP cache, stats, profiler without trigger, '
        'signed cookie with session / numeric / never expiry, ContextProcessor(), SimpleContextProcessor(), GET and POST '
        'parameter extractors for a name nobody consumes, script root) and random stacks of 2-4, over a scenario application '
        'with every response kind (Response text/binary/empty/large compressible/incompressible, rendered context, redirect, '
        'raised and returned 4xx/5xx, non-breaking error with fallthrough, uncaught exception, unknown URL, wrong method) x methods '
        'GET/HEAD/POST x Accept-Encoding {absent, gzip, "gzip, deflate", identity, gzip;q=0, *, br}; non-trivial when the stack '
        'is non-empty; distinct by hash of (stack, request)')
ASSUMPTIONS = ['no conditional request headers are sent (answering them is the purpose of the cache middleware)',
               'bodies of 500 responses are compared after removing the traceback frame count, which depends on stack depth',
               'middlewares run in their default configuration']
REQUIRED_REACH = ['gzip:vary-on-uncompressed', 'mw:gzip', 'mw:cache', 'mw:stats', 'mw:profile', 'mw:cookie', 'mw:cookie-expiry', 'mw:ctx', 'mw:simplectx',
                  'mw:getparam', 'mw:postdata', 'mw:scriptroot', 'kind:404', 'kind:405', 'kind:500', 'kind:redirect',
                  'kind:http-raised', 'kind:http-returned', 'kind:rendered', 'kind:nonbreaking', 'gzip:compressed',
                  'gzip:not-compressed-by-choice', 'gzip:client-does-not-accept', 'pairs-compared', 'head-compared', 'kind:app-status', 'kind:raw-path']
NSHARDS = 16
MW_NAMES = ['gzip', 'cache', 'stats', 'profile', 'cookie', 'cookie-expiry', 'cookie-never', 'ctx', 'simplectx', 'ctx-defaults', 'getparam', 'getparam-typed',
            'postdata', 'scriptroot']
AE = [None, 'gzip', 'gzip, deflate', 'identity', 'gzip;q=0', '*', 'br', 'deflate, gzip;q=0.5', 'GZIP']
BIG = ('lorem ipsum dolor sit amet ' * 2000)


def make_mw(name):
    from clastic.middleware import (GzipMiddleware, HTTPCacheMiddleware, SimpleProfileMiddleware, ContextProcessor,
                                    SimpleContextProcessor, GetParamMiddleware)
    from clastic.middleware.stats import StatsMiddleware
    from clastic.middleware.cookie import SignedCookieMiddleware, NEVER
    from clastic.middleware.form import PostDataMiddleware
    from clastic.middleware.url import ScriptRootMiddleware
    return {'gzip': lambda: GzipMiddleware(), 'cache': lambda: HTTPCacheMiddleware(), 'stats': lambda: StatsMiddleware(),
            'profile': lambda: SimpleProfileMiddleware(), 'cookie': lambda: SignedCookieMiddleware(secret_key=b'k' * 20),
            'cookie-expiry': lambda: SignedCookieMiddleware(secret_key=b'k' * 20, expiry=3600),
            'cookie-never': lambda: SignedCookieMiddleware(secret_key=b'k' * 20, expiry=NEVER),
            'ctx': lambda: ContextProcessor(), 'simplectx': lambda: SimpleContextProcessor(),
            'getparam': lambda: GetParamMiddleware(['unused_q']),
            'getparam-typed': lambda: GetParamMiddleware({'unused_n': int, 'unused_x': float}), 'postdata': lambda: PostDataMiddleware(['unused_f']),
            'scriptroot': lambda: ScriptRootMiddleware()}[name]()


def ctxnone():
    return {'user': None, 'lang': None, 'theme': None, 'count': 0, 'n': 1}


def build_app(stack, rnd_blob):
    from clastic import Application, Route, Response, render_basic, render_json
    from werkzeug.wrappers import BaseResponse
    from clastic import errors
    from werkzeug.wsgi import wrap_file

    def boom():
        raise ValueError('scenario failure')

    def nb_first():
        raise errors.NotFound(detail='first declines', is_breaking=False)
    routes = [
        Route('/text', lambda: Response('hello world', mimetype='text/plain')),
        Route('/empty', lambda: Response('', mimetype='text/plain')),
        Route('/big', lambda: Response(BIG, mimetype='text/plain')),
        Route('/bigbin', lambda: Response(rnd_blob, mimetype='application/octet-stream')),
        # compressible bodies whose sizes are exact multiples of common buffer sizes
        Route('/buf/<n:int>', lambda n: Response((b'0123456789abcdef' * (n // 16 + 1))[:n], mimetype='application/octet-stream')),
        Route('/binary', lambda: Response(bytes(range(256)) * 4, mimetype='application/octet-stream')),
        Route('/html', lambda: Response('<html><body>' + 'é☃ ' * 500 + '</body></html>', mimetype='text/html')),
        Route('/ctx', lambda: {'a': 1, 'b': ['x', 'y'], 'text': 'z' * 3000}, render_basic),
        Route('/json', lambda: {'k': list(range(300))}, render_json),
        # responses that are not werkzeug's full Response: the bare base class (no header mix-ins), and nothing at all
        Route('/base', lambda: BaseResponse('bare base response ' * 40, mimetype='text/plain')),
        Route('/base201', lambda: BaseResponse('created', status=201, headers={'Location': 'http://verif.test/new'})),
        Route('/noresp', lambda: None),
        # rendered contexts whose keys are not ordinary identifiers (integer keys, names the framework reserves elsewhere)
        Route('/ctxkeys', lambda: {'next': '/page/2', 'self': '/page/1', 'context': 'c', 'request': 'r', 'a b': 1, '': 0}, render_basic),
        Route('/ctxint', lambda: {1: 'one', 2: 'two'}, render_basic),
        Route('/branch/', lambda: Response('branch')),
        Route('/raise403', lambda: (_ for _ in ()).throw(errors.Forbidden('no entry'))),
        Route('/return404', lambda: errors.NotFound('gone fishing')),
        Route('/raise503', lambda: (_ for _ in ()).throw(errors.ServiceUnavailable('later ' * 300))),
        Route('/return418', lambda: errors.ImATeapot()),
        Route('/return503', lambda: errors.ServiceUnavailable('come back later')),
        Route('/return502', lambda: errors.BadGateway(is_breaking=False)),
        Route('/nb', nb_first), Route('/nb', lambda: Response('second answers', mimetype='text/plain')),
        Route('/nbonly', nb_first),
        Route('/boom', boom),
        Route('/only-get', lambda: Response('got'), methods=['GET']),
        Route('/post', lambda request: Response('posted %r' % sorted(request.form.items()), mimetype='text/plain'), methods=['POST']),
        Route('/stream', lambda: Response((('part %d ' % i) * 50 for i in range(20)), mimetype='text/plain')),
        Route('/redirect301', lambda: Response('', status=301, headers={'Location': 'http://verif.test/text'})),
        # full Responses made by the application itself with a status other than 200 and a body worth compressing
        Route('/created', lambda: Response('created item ' * 200, status=201, mimetype='text/plain', headers={'Location': 'http://verif.test/item/7'})),
        Route('/found', lambda: Response('<a href="/text">moved</a> ' * 100, status=302, mimetype='text/html', headers={'Location': 'http://verif.test/text'})),
        Route('/app404', lambda: Response('nothing of that name here ' * 80, status=404, mimetype='text/plain')),
        Route('/app503', lambda: Response('{"state": "maintenance", "pad": "%s"}' % ('x' * 2000), status=503, mimetype='application/json', headers={'Retry-After': '120'})),
        Route('/accepted', lambda: Response('queued ' * 300, status=202, mimetype='text/plain')),
        Route('/latin1', lambda: Response(('caf\xe9 cr\xe8me br\xfbl\xe9e ' * 200).encode('latin-1'), mimetype='text/plain')),
        Route('/rawtext', lambda: Response(bytes(range(256)) * 8)),           # werkzeug's default type: text/plain
        Route('/utf16html', lambda: Response(('<html><body>' + 'h\u00e9llo ' * 300 + '</body></html>').encode('utf-16'), mimetype='text/html')),
        Route('/seg/<x>', lambda x: Response('segment %r ' % x * 30, mimetype='text/plain')),
        # a file-like body handed through untouched (direct passthrough, as a download endpoint does)
        Route('/download', lambda request: Response(wrap_file(request.environ, io.BytesIO(b'0123456789' * 7000)), direct_passthrough=True,
                                                    mimetype='application/octet-stream')),
        Route('/ctxnone', ctxnone, render_json),
    ]
    if 'ctx-defaults' in stack:
        # context processors with defaults, on the one route whose context carries all of their names already (some as None):
        # what is there stays, a default only fills what is missing
        from clastic.middleware import ContextProcessor, SimpleContextProcessor
        routes[-1] = Route('/ctxnone', ctxnone, render_json, middlewares=[ContextProcessor(defaults={'user': 'anonymous', 'lang': 'en'}),
                                                                         SimpleContextProcessor(theme='dark', count=1)])
    return Application(routes, middlewares=[make_mw(n) for n in stack if n != 'ctx-defaults'])


REQUESTS = [
    ('text', 'GET', '/text', b''), ('text', 'GET', '/empty', b''), ('text', 'GET', '/big', b''), ('text', 'GET', '/bigbin', b''),
    ('text', 'GET', '/binary', b''), ('text', 'GET', '/buf/65536', b''), ('text', 'GET', '/buf/131072', b''), ('text', 'GET', '/buf/4096', b''),
    ('text', 'GET', '/buf/8192', b''), ('text', 'GET', '/buf/16384', b''), ('text', 'GET', '/buf/65535', b''), ('text', 'GET', '/buf/1048576', b''), ('text', 'GET', '/html', b''), ('rendered', 'GET', '/ctx', b''), ('rendered', 'GET', '/json', b''),
    ('bare-base', 'GET', '/base', b''), ('bare-base', 'GET', '/base201', b''), ('500', 'GET', '/noresp', b''),
    ('rendered', 'GET', '/ctxkeys', b''), ('rendered', 'GET', '/ctxint', b''),
    ('redirect', 'GET', '/branch', b''), ('redirect', 'GET', '/redirect301', b''), ('http-raised', 'GET', '/raise403', b''),
    ('http-returned', 'GET', '/return404', b''), ('http-raised', 'GET', '/raise503', b''), ('http-returned', 'GET', '/return418', b''),
    ('http-returned', 'GET', '/return503', b''), ('http-returned', 'POST', '/return502', b''),
    ('nonbreaking', 'GET', '/nb', b''), ('nonbreaking', 'GET', '/nbonly', b''), ('500', 'GET', '/boom', b''),
    ('404', 'GET', '/no/such/url', b''), ('404', 'POST', '/nothing', b'a=1'), ('405', 'POST', '/only-get', b'x=1'),
    ('405', 'DELETE', '/only-get', b''), ('text', 'POST', '/post', b'unused_f=1&z=2'), ('text', 'GET', '/stream', b''),
    ('text', 'GET', '/text', b''),
    ('app-status', 'GET', '/created', b''), ('app-status', 'GET', '/found', b''), ('app-status', 'GET', '/app404', b''), ('app-status', 'GET', '/app503', b''),
    ('app-status', 'GET', '/accepted', b''),
    ('text', 'GET', '/download', b''), ('rendered', 'GET', '/ctxnone', b''), ('rendered', 'GET', '/ctxnone', b''),
    ('text', 'GET', '/latin1', b''), ('text', 'GET', '/rawtext', b''), ('text', 'GET', '/utf16html', b''),
    ('text', 'GET', '/seg/caf\u00e9', b''), ('raw-path', 'GET', 'raw:/seg/caf\xe9', b''), ('raw-path', 'GET', 'raw:/seg/\xff\xfe', b''),
    ('raw-path', 'GET', 'raw:/nope/\xe9t\xe9', b''), ('raw-path', 'GET', 'raw:/seg/ab\xc3', b''), ('raw-path', 'POST', 'raw:/only-get\xa0', b'x=1'),
]


def decoded(ex):
    body = ex.body
    enc = (ex.header('Content-Encoding') or '').lower()
    if enc == 'gzip':
        try:
            body = gzip.decompress(body)
        except Exception as e:
            return None, 'gzip body does not decompress: %r' % e
    if ex.status == 500:
        # the traceback (frame count, frame list) legitimately grows with every middleware on the stack:
        # keep what identifies the failure
        m = re.search(rb'ExceptionInfo \[([^\]]*)\]', body)
        body = b'500:' + (m.group(1) if m else body[:60])
    return body, None


# query strings: none of them carries the profiler's trigger parameter (_prof)
QUERIES = ['unused_q=7', 'unused_q=7', '', 'unused_n=12&unused_x=1.5', 'unused_n=abc', 'unused_n=&unused_x=', 'unused_n=1.5&unused_x=1e999', 'unused_n=12abc&UNUSED_N=3', 'unused_q=7&_prof_sort=calls', '_prof_sort=', '_prof_sort=newest&unused_q=1', '_prof_sort=time',
           'page=2&sort=newest', 'unused_q=%FF', 'unused_q=1&unused_q=2', '_profile=1', 'unused_q=', 'callback=cb&unused_q=x', '_prof_limit=abc']


def exchange(app, method, path, body, ae, accept=None, query='unused_q=7'):
    h = {}
    if ae is not None:
        h['Accept-Encoding'] = ae
    if accept:
        h['Accept'] = accept
    if method == 'POST':
        h['Content-Type'] = 'application/x-www-form-urlencoded'
    if path.startswith('raw:'):
        # PATH_INFO exactly as a server hands it over: bytes (as Latin-1 text) that need not be UTF-8
        return probe.request(app, method, path[4:], query, headers=h, body=body, raw_path=True)
    return probe.request(app, method, path, query, headers=h, body=body)


def accepts_gzip(ae):
    if ae is None:
        return False
    parts = [p.strip().lower() for p in ae.split(',')]
    for p in parts:
        name, _, params = p.partition(';')
        q = 1.0
        if 'q=' in params:
            try:
                q = float(params.split('q=')[1])
            except ValueError:
                q = 1.0
        if name.strip() in ('gzip', '*') and q > 0:
            return True
    return False


def judge_stack(sh, rng, stack, blob, requests, record=True):
    try:
        plain = build_app([], blob)
        mwapp = build_app(stack, blob)
    except Exception as e:
        sh.violation('C15/construction-failed', 'stack %r: %r' % (stack, e), {'stack': stack, 'req': None})
        return
    for n in stack:
        sh.hit('mw:' + n)
    for kind, method, path, body in requests:
        ae = rng.pick(AE) if 'gzip' in stack else rng.pick([None, None, 'gzip'])
        accept = rng.pick([None, None, 'text/html', 'application/json'])
        query = rng.pick(QUERIES)
        for m in ([method, 'HEAD'] if method == 'GET' and rng.chance(0.35) else [method]):
            a = exchange(plain, m, path, body, ae, accept, query)
            b = exchange(mwapp, m, path, body, ae, accept, query)
            case = {'stack': stack, 'req': [kind, m, path, body.decode('latin-1'), ae, accept, query]}
            if record:
                sh.case(case, nontrivial=bool(stack), klass='%s:%s' % ('+'.join(stack) if len(stack) == 1 else '%d-stack' % len(stack), kind))
            sh.hit('kind:' + kind)
            sh.hit('pairs-compared')
            if m == 'HEAD':
                sh.hit('head-compared')
            brief = '%s %s?%s [stack %s, Accept-Encoding %r, Accept %r]' % (m, path, query, '+'.join(stack), ae, accept)
            if a.exc is not None:
                raise RuntimeError('scenario application without middlewares failed: %r' % a.exc)
            if b.exc is not None:
                sh.violation('C15/exception-escaped', '%s: %s escaped with the middleware installed' % (brief, probe.safe_repr(b.exc)[:200]), case)
                continue
            if a.status != b.status:
                sh.violation('C15/status-changed:%s->%s' % (a.status, b.status),
                             '%s: status %s without, %s with the middleware (%r)' % (brief, a.status, b.status, b.body[:150]), case)
                continue
            da, ea = decoded(a)
            db, eb = decoded(b)
            if eb:
                sh.violation('C15/gzip-corrupt', '%s: %s' % (brief, eb), case)
                continue
            if da != db:
                sh.violation('C15/body-changed', '%s: body differs: %r... vs %r...' % (brief, (da or b'')[:120], (db or b'')[:120]), case)
                continue
            if a.header('Location') != b.header('Location'):
                sh.violation('C15/location-changed', '%s: Location %r vs %r' % (brief, a.header('Location'), b.header('Location')), case)
                continue
            if 'gzip' in stack:
                enc = (b.header('Content-Encoding') or '').lower()
                if accepts_gzip(ae):
                    if enc == 'gzip':
                        sh.hit('gzip:compressed')
                        cl = b.header('Content-Length')
                        if m != 'HEAD' and (cl is None or int(cl) != len(b.body)):
                            sh.violation('C15/gzip-content-length', '%s: Content-Length %r, %d bytes sent' % (brief, cl, len(b.body)), case)
                        vary = ','.join(b.header_all('Vary')).lower()
                        if 'accept-encoding' not in vary:
                            sh.violation('C15/gzip-vary', '%s: compressed response without Vary: Accept-Encoding (%r)' % (brief, vary), case)
                    else:
                        sh.hit('gzip:not-compressed-by-choice')
                        # the answer to this URL depends on Accept-Encoding whether or not this particular body was worth
                        # compressing: caches must be told (error responses are HTTPExceptions, which the middleware
                        # passes through untouched, as are the slash redirects the dispatcher issues before any middleware
                        # runs - both left open)
                        # ... as are bare BaseResponse objects, which lack the header mix-ins the middleware works through
                        if b.status < 300 and kind != 'bare-base':
                            vary = ','.join(b.header_all('Vary')).lower()
                            if 'accept-encoding' not in vary:
                                sh.violation('C15/gzip-vary', '%s: gzip-accepting client, body left uncompressed, no Vary: Accept-Encoding (%r)'
                                             % (brief, vary), case)
                            else:
                                sh.hit('gzip:vary-on-uncompressed')
                else:
                    sh.hit('gzip:client-does-not-accept')
                    if enc == 'gzip' or (m != 'HEAD' and b.body != a.body and a.status != 500):
                        sh.violation('C15/gzip-forced-on-client', '%s: client does not accept gzip yet the body was altered (Content-Encoding %r)'
                                     % (brief, enc), case)


def plan(tier, seed):
    return [{'label': 'rand-%d' % i, 'index': i, 'stacks': 60 if tier == 'quick' else 3000, 'timeout': 7200} for i in range(NSHARDS)]


def run_shard(sh, spec):
    rng = Rng(spec['seed'], PROPERTY, spec['label'])
    blob = bytes(rng.getrandbits(8) for _ in range(60000))
    # every middleware alone (spread over the shards), then random stacks
    for i, name in enumerate(MW_NAMES):
        if i % NSHARDS == spec['index'] % NSHARDS or spec['index'] >= len(MW_NAMES) and (i + spec['index']) % 4 == 0:
            judge_stack(sh, rng, [name], blob, REQUESTS)
    for _ in range(spec['stacks']):
        k = rng.randint(2, 4)
        names = list(MW_NAMES)
        rng.shuffle(names)
        stack = []
        for n in names:
            if len(stack) == k:
                break
            if n.startswith('cookie') and any(x.startswith('cookie') for x in stack):
                continue        # two cookie middlewares would both provide 'cookie' (a configuration error, C04)
            stack.append(n)
        reqs = list(REQUESTS)
        rng.shuffle(reqs)
        judge_stack(sh, rng, stack, blob, reqs[:14])


def replay(sh, case, spec):
    rng = Rng(0, 'replay')
    blob = bytes(rng.getrandbits(8) for _ in range(60000))
    kind, m, path, body, ae, accept = case['req'][:6]
    query = case['req'][6] if len(case['req']) > 6 else 'unused_q=7'

    class Fixed(object):
        def pick(self, seq):
            if seq is QUERIES:
                return query
            if seq and seq[0] is None and 'gzip' in seq:
                return ae
            if seq and seq[0] is None:
                return accept
            return seq[0]

        def chance(self, p):
            return False
    judge_stack(sh, Fixed(), case['stack'], blob, [(kind, m, path, body.encode('latin-1'))], record=False)
