# -*- coding: utf-8 -*-
"""C02 - each injected argument comes from its one declared source.

Monitor 1 (decides): every spy function records, per call, the symbolic identity of each argument
it actually received (resource objects and defaults by identity, the request by its environ, the
provided values by the per-request object the providing middleware created); the sequence is
compared with the reference onion's expectation, for two back-to-back requests with different
tokens and URL values, plus the catch-all route.
Monitor 2 (reported, informational): the source text of every chain the framework generates is
captured by wrapping compile_code and inspected with ast (keyword-only calls of the form n=n).
Ambient sweep: every shard runs under its own PYTHONHASHSEED; a fixed set of configurations is
repeated under each hash seed and the distinct generated texts per configuration are counted."""
import ast
import hashlib
import collections

from ..common import Rng
from .. import gen_di
from ._di_common import drive, replay_cfg

PROPERTY = 'C02'
LEVEL = 'exploration'
RULE = ('cases are accepted route configurations (as C01) crossed with two requests carrying distinct '
        'tokens / URL values and one request to the catch-all route; all resources, defaults and provided values '
        'are unique objects compared by identity; a case is non-trivial when it was constructed and at least one '
        'spy function with a parameter ran; distinct by hash of the canonical configuration; shards differ in '
        'PYTHONHASHSEED')
ASSUMPTIONS = ['one name is never defined by both an application-level and a route-level resource here (C10 covers precedence)',
               'which of several applications is "the application" for an embedded route: the serving (outermost) one']
REQUIRED_REACH = ['same-unique-type-on-several-levels', 'nonunique-type-on-two-levels', 'decoy-routes-passed-over', 'sibling-routes-with-own-middlewares', 'functions-with-var-keyword-parameters-called', 'innermost-application-also-mounted-elsewhere', 'sibling-middleware-provides-a-name-the-route-mentions', 'prefix-bindings-injected', 'constructed', 'requests-on-accepted', 'src:default:def', 'src:default:kwdef', 'src:resource:req',
                  'src:resource:kwreq', 'src:provided:req', 'src:provided:kwdef', 'src:request:req', 'src:application:req',
                  'src:dispatch_state:req', 'src:ctx:req', 'src:value:req', 'src:route:req', 'src:next:req']
HASHSEEDS_Q = [0, 1, 2, 3, 4, 5, 6, 7]
HASHSEEDS_T = list(range(16)) + [101, 2024, 65535, 4294967295]

_captured = []


def install_codegen_monitor(sh):
    """wrap compile_code where it is looked up (sinter and middleware.core) - best effort"""
    try:
        import clastic.sinter as sinter
        import clastic.middleware.core as core
    except Exception:
        return
    orig = getattr(sinter, 'compile_code', None)
    if orig is None:
        return

    def spy(code_str, name, env=None, **kw):
        _captured.append(code_str)
        inspect_source(sh, code_str)
        return orig(code_str, name, env, **kw)
    sinter.compile_code = spy
    if getattr(core, 'compile_code', None) is orig:
        core.compile_code = spy


def inspect_source(sh, src):
    sh.hit('gen-code:texts')
    try:
        tree = ast.parse(src)
    except SyntaxError:
        sh.hit('gen-code:unparsable')
        return
    for node in ast.walk(tree):
        if isinstance(node, ast.Call):
            if isinstance(node.func, ast.Name) and node.func.id == 'isinstance':
                continue
            sh.hit('gen-code:calls')
            if node.args:
                sh.hit('gen-code:positional-call')
            for kw in node.keywords:
                if kw.arg is None or not isinstance(kw.value, ast.Name) or kw.value.id != kw.arg:
                    sh.hit('gen-code:keyword-not-n=n')


def plan(tier, seed):
    specs = []
    hs = HASHSEEDS_Q if tier == 'quick' else HASHSEEDS_T
    for i, h in enumerate(hs):
        specs.append({'label': 'hs-%d' % h, 'hashseed': h, 'index': i,
                      'n': 1500 if tier == 'quick' else 60000, 'n_fixed': 300 if tier == 'quick' else 3000,
                      'timeout': 1200 if tier == 'quick' else 7200})
    for i in range(8):
        specs.append({'label': 'core-%d' % i, 'kind': 'core', 'hashseed': 11 + i, 'index': i, 'of': 8,
                      'timeout': 1200 if tier == 'quick' else 7200})
    return specs


def run_shard(sh, spec):
    install_codegen_monitor(sh)
    if spec.get('kind') == 'core':
        for cfg in gen_di.core_pairs(spec['index'], spec['of']):
            drive(sh, PROPERTY, cfg, 'coreC')
        for cfg in gen_di.core_configs_route_mw(('a', 'b'), spec['index'], spec['of'] * (4 if spec['tier'] == 'quick' else 1)):
            drive(sh, PROPERTY, cfg, 'coreB')
        return
    # part 1: the same configurations under every hash seed (generated-text comparison)
    fixed = Rng(spec['seed'], PROPERTY, 'fixed-part')
    digests = []
    for i in range(spec['n_fixed']):
        cfg = gen_di.gen_config(fixed, {'deviate': 0.0, 'posonly': False, 'decoys': True})
        del _captured[:]
        drive(sh, PROPERTY, cfg, 'fixed')
        digests.append(hashlib.sha1('\x00'.join(_captured).encode('utf8')).hexdigest()[:12])
    sh.notes['fixed-digests:%s' % spec['label']] = digests
    for cfg in same_type_cores():
        drive(sh, PROPERTY, cfg, 'same-type-core', nontrivial=True)
        sh.hit('same-unique-type-on-several-levels')
    # part 2: this shard's own configurations
    rng = Rng(spec['seed'], PROPERTY, spec['label'])
    for i in range(spec['n']):
        cfg = gen_di.gen_config(rng, {'deviate': rng.pick([0.0, 0.0, 0.02, 0.05]), 'posonly': False, 'p_nested': 0.3, 'decoys': True})
        drive(sh, PROPERTY, cfg, 'random')


def same_type_cores():
    """Embeddings whose levels carry *different instances of one unique middleware type* offering the same names - and nothing
    else that would tell the levels apart (no resources, same renderer): the instance of the outermost level is the one
    that stays, so its functions run and its values arrive."""
    out = []

    def mw(mid, phases, provides_by_phase):
        m = {'mid': mid, 'type': 'T', 'unique': True, 'reorderable': True, 'request': None, 'endpoint': None, 'render': None,
             'provides': [], 'endpoint_provides': [], 'render_provides': []}
        for ph in phases:
            m[ph] = {'fid': '%s.%s' % (mid, ph), 'form': 'method', 'params': [['next', 'req']]}
        for ph, names in provides_by_phase.items():
            m[{'request': 'provides', 'endpoint': 'endpoint_provides', 'render': 'render_provides'}[ph]] = list(names)
        return m
    for nlev in (2, 3):
        for phase in ('request', 'endpoint', 'render'):
            for extra_inner in (False, True):
                for at_route in (False, True):
                    levels = [{'mws': [mw('m%d' % k, [phase], {phase: ['a']})], 'resources': [], 'prefix': '/p%d' % k} for k in range(nlev)]
                    route_mws = []
                    if at_route:
                        levels[-1]['mws'] = []
                        route_mws = [mw('mr', [phase], {phase: ['a']})]
                    if extra_inner:
                        (route_mws if at_route else levels[-1]['mws']).append(
                            {'mid': 'mx', 'type': 'X', 'unique': True, 'reorderable': True, 'request': {'fid': 'mx.request', 'form': 'function', 'params': [['next', 'req']]},
                             'endpoint': None, 'render': None, 'provides': [], 'endpoint_provides': [], 'render_provides': []})
                    consumer_ep = phase in ('request', 'endpoint')
                    out.append({'levels': levels, 'beh': {}, 'build_via_add': False,
                                'route': {'bindings': [], 'mws': route_mws, 'resources': [], 'methods': None,
                                          'endpoint': {'fid': 'ep', 'form': 'function', 'params': [['a', 'req']] if consumer_ep else []},
                                          'render': {'fid': 'rn', 'form': 'function', 'params': [['context', 'req']] + ([] if consumer_ep else [['a', 'req']])}}})
    return out


def finalize(m, tier):
    """count configurations whose generated chain text differs between hash seeds"""
    per = [v for k, v in m['notes'].items() if k.startswith('fixed-digests:')]
    if len(per) >= 2:
        n = min(len(p) for p in per)
        differing = sum(1 for i in range(n) if len(set(p[i] for p in per)) > 1)
        m['counters']['hash-seed:fixed-configs'] = n
        m['counters']['hash-seed:configs-with-differing-generated-text'] = differing
        m['counters']['hash-seed:seeds-compared'] = len(per)
    for k in [k for k in m['notes'] if k.startswith('fixed-digests:')]:
        del m['notes'][k]


def replay(sh, case, spec):
    replay_cfg(sh, PROPERTY, case)
