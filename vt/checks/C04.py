# -*- coding: utf-8 -*-
"""C04 - name conflicts and reserved-name misuse are rejected at construction.

Monitor: constructor outcome.  Exactly one defect is planted into an otherwise valid random
configuration (the model must agree the host is valid before and rejected after); the real
Application/Route constructors must refuse it - with NameError for conflicts and reserved names."""
import copy

from ..common import Rng
from .. import gen_di
from ..models import di
from ._di_common import drive, replay_cfg

PROPERTY = 'C04'
LEVEL = 'exploration'
RULE = ('cases are valid random host configurations (as C01, 1-2 application levels) with exactly one planted defect: a name offered '
        'by two sources (every pair from URL binding / application resource / route resource / built-in / '
        'request-, endpoint-, render-provides of application-, embedded- and route-level middlewares), a reserved '
        'name used as resource or URL binding, a middleware function not starting with next, next in an endpoint or '
        'render signature, a required context outside the render phase; plus unplanted controls; a case is '
        'non-trivial when the model confirms host valid / planted invalid; distinct by hash of configuration')
ASSUMPTIONS = ['the same name as application-level and route-level resource is a documented merge, not a conflict',
               'for next/context misplacement any exception at construction counts as rejection']
SOURCES = ['url', 'app-resource', 'route-resource', 'builtin', 'mw-request', 'mw-endpoint', 'mw-render']
PAIRS = [(a, b) for i, a in enumerate(SOURCES) for b in SOURCES[i:]
         if not (a == b and a in ('url', 'builtin', 'app-resource', 'route-resource'))
         and (a, b) != ('app-resource', 'route-resource')]
REQUIRED_REACH = ['schedules:two-constructions', 'planted:reserved-app-resource', 'planted:reserved-route-resource', 'planted:reserved-url-binding',
                  'planted:mw-without-next', 'planted:next-in-endpoint', 'planted:next-in-render',
                  'planted:context-outside-render', 'control:accepted', 'planted-in-prefix-binding', 'planted-in-factory-made-render', 'planted-mw-without-any-parameter'] + \
                 ['planted:conflict:%s+%s' % p for p in PAIRS]
NSHARDS = 16
PROV_ATTR = {'mw-request': ('request', 'provides'), 'mw-endpoint': ('endpoint', 'endpoint_provides'),
             'mw-render': ('render', 'render_provides')}


def valid_host(rng):
    for _ in range(50):
        cfg = gen_di.gen_config(rng, {'deviate': 0.0, 'posonly': False, 'p_nested': 0.3})
        if di.summarize([di.verdict(v) for v in di.views_of(cfg)])[0] == 'accept':
            return cfg
    return None


def offered_names(cfg):
    s = set(cfg['route']['bindings']) | set(cfg['route']['resources'])
    for l in cfg['levels']:
        s |= set(l['resources']) | set(l.get('prefix_bindings') or [])
    for m in [m for l in cfg['levels'] for m in l['mws']] + cfg['route']['mws']:
        for a in ('provides', 'endpoint_provides', 'render_provides'):
            s |= set(m[a])
    return s


def used_names(cfg):
    s = set()
    fs = [cfg['route']['endpoint'], cfg['route'].get('render')]
    for m in [m for l in cfg['levels'] for m in l['mws']] + cfg['route']['mws']:
        fs += [m.get('request'), m.get('endpoint'), m.get('render')]
    for f in fs:
        if f:
            s |= set(p for p, _ in f['params'])
    return s


_mw_n = [0]


def add_source(rng, cfg, src, name):
    """offer `name` from source kind `src`; returns a label of where it went"""
    nlev = len(cfg['levels'])
    if src == 'url':
        if nlev > 1 and rng.chance(0.5):
            k = rng.randrange(nlev - 1)
            cfg['levels'][k].setdefault('prefix_bindings', []).append(name)
            return 'url@prefix-of-level%d' % k
        cfg['route']['bindings'].append(name)
        return 'url'
    if src == 'app-resource':
        k = rng.randrange(nlev)
        cfg['levels'][k]['resources'].append(name)
        return 'app-resource@%d' % k
    if src == 'route-resource':
        cfg['route']['resources'].append(name)
        return 'route-resource'
    if src == 'builtin':
        return 'builtin'
    phase, attr = PROV_ATTR[src]
    where = rng.randrange(nlev + 1)
    lst = cfg['route']['mws'] if where == nlev else cfg['levels'][where]['mws']
    cands = [m for m in lst if m.get(phase)]
    if cands and rng.chance(0.6):
        mw = rng.pick(cands)
    else:
        _mw_n[0] += 1
        mid = 'x%d' % _mw_n[0]
        mw = {'mid': mid, 'type': 'X%d' % _mw_n[0], 'unique': True, 'reorderable': True, 'request': None,
              'endpoint': None, 'render': None, 'provides': [], 'endpoint_provides': [], 'render_provides': []}
        mw[phase] = {'fid': '%s.%s' % (mid, phase), 'form': rng.pick(['function', 'method']), 'params': [['next', 'req']]}
        lst.insert(rng.randrange(len(lst) + 1), mw)
    if name not in mw[attr]:
        mw[attr].append(name)
    else:
        mw[attr].append(name)       # the same middleware offering the name twice is still two offers
    return '%s@%s' % (src, 'route' if where == nlev else 'level%d' % where)


sh_exotic = [0, 0]


def plant(rng, host, what):
    cfg = copy.deepcopy(host)
    label = what
    if what.startswith('conflict:'):
        a, b = what[9:].split('+')
        if 'builtin' in (a, b):
            name = rng.pick(list(di.RESERVED))
            if name == 'next' and 'url' in (a, b) and False:
                name = 'request'
        else:
            free = [n for n in ['a', 'b', 'c', 'd', 'e', 'f', 'g'] if n not in offered_names(cfg) and n not in used_names(cfg)]
            name = rng.pick(free)
            if rng.chance(0.3):
                # perfectly good parameter names that tooling sometimes treats specially: soft keywords, builtins' names,
                # underscore-only and dunder-like names, mixed case, digits
                exotic = [n for n in ['type', 'match', 'case', '_', '__', 'id', 'list', 'print', 'Name', 'x1', '_private', '__dunder__', 'self_',
                                      # names outside ASCII, also ones that Unicode normalisation (NFKC, NFC) would respell:
                                      # the same spelling offered twice is the same name offered twice
                                      'x\ufb01', 'a\u00b5', 't\u212a', 'x\uff11', 'caf\u00e9', 'n\u00e4me', 'x\u65e5']   # (no combining marks: a URL binding name is [A-Za-z_]\\w*)
                          if n not in offered_names(cfg) and n not in used_names(cfg)]
                if exotic:
                    name = rng.pick(exotic)
                    sh_exotic[0] += 1
        la = add_source(rng, cfg, a, name)
        lb = add_source(rng, cfg, b, name)
        label = '%s [%s: %s + %s]' % (what, name, la, lb)
        if a.startswith('mw-') and b.startswith('mw-') and rng.chance(0.4):
            # the two offering middlewares are of related types (one derives from the other): related is not the same,
            # both stay on the route and their offers collide like any others
            offering = [m for m in [m for l in cfg['levels'] for m in l['mws']] + cfg['route']['mws']
                        if any(name in m[x] for x in ('provides', 'endpoint_provides', 'render_provides'))]
            if len(offering) == 2 and offering[0]['type'] != offering[1]['type'] and not offering[0].get('base') and not offering[1].get('base'):
                sub, base = (offering[1], offering[0]) if rng.chance(0.7) else (offering[0], offering[1])
                sub['base'], sub['base_unique'] = base['type'], base.get('unique', True)
                label += ' [related types]'
                sh_exotic[1] += 1
    elif what == 'reserved-app-resource':
        name = rng.pick(list(di.RESERVED))
        cfg['levels'][rng.randrange(len(cfg['levels']))]['resources'].append(name)
        label += ':' + name
    elif what == 'reserved-route-resource':
        name = rng.pick(list(di.RESERVED))
        cfg['route']['resources'].append(name)
        label += ':' + name
    elif what == 'reserved-url-binding':
        name = rng.pick(list(di.RESERVED))
        add_source(rng, cfg, 'url', name)
        label += ':' + name
    elif what == 'mw-without-next':
        phase = rng.pick(['request', 'endpoint', 'render'])
        src = 'mw-' + phase
        add_source(rng, cfg, src, 'zz')      # make sure such a function exists
        mws = [m for m in [m for l in cfg['levels'] for m in l['mws']] + cfg['route']['mws'] if m.get(phase)]
        mw = rng.pick(mws)
        for m in mws:
            for a in ('provides', 'endpoint_provides', 'render_provides'):
                m[a] = [x for x in m[a] if x != 'zz']
        f = mw[phase]
        variant = rng.pick(['dropped', 'second', 'renamed', 'no-params', 'near-miss', 'near-miss', 'kwonly-next'])
        rest = [p for p in f['params'] if p[0] != 'next']
        if variant == 'no-params':
            f['params'] = []           # a function that takes nothing at all
        elif variant == 'dropped' and rest:
            f['params'] = rest
        elif variant == 'second' and rest:
            f['params'] = [rest[0], ['next', rest[0][1] if rest[0][1] in ('def',) else 'req']] + rest[1:]
            if rest[0][1] in ('def', 'kwdef', 'kwreq'):
                f['params'] = [[rest[0][0], 'req'], ['next', 'req']] + rest[1:]
        elif variant == 'kwonly-next':
            # next is there, but keyword-only behind something else: still not the first parameter
            first = rest[0] if rest else ['request', 'req']
            f['params'] = [[first[0], 'req' if first[1] not in ('def',) else 'def']] + [p for p in rest[1:] if p[1] in ('req', 'def')] + \
                          [['next', 'kwreq']] + [p for p in rest[1:] if p[1] not in ('req', 'def')]
        elif variant == 'near-miss':
            # a first parameter whose name merely resembles 'next' and that can be supplied (it has a default): only the
            # first-parameter rule stands between this function and a chain that never receives a next
            taken = set(p[0] for p in rest)       # (the host may use one of these names already: unusual names are in the generator's vocabulary)
            f['params'] = [[rng.pick([n for n in ['next_hop', '_next', 'nextpage', 'next_', 'nnext', 'next2', 'Next', 'NEXT'] if n not in taken]), 'def']] + rest
        else:
            f['params'] = [['nxt', 'req']] + rest
        label += ':%s:%s' % (phase, variant)
    elif what in ('next-in-endpoint', 'next-in-render'):
        key = 'endpoint' if what == 'next-in-endpoint' else 'render'
        if cfg['route'].get(key) is None:
            cfg['route'][key] = {'fid': 'rn', 'form': 'function', 'params': [['context', 'req']]}
        f = cfg['route'][key]
        kind = rng.pick(['req', 'def', 'kwreq', 'kwdef'])
        f['params'] = f['params'] + [['next', kind]]
        label += ':' + kind
        if key == 'render' and rng.chance(0.5):
            cfg['route']['render_via_factory'] = True       # the render function is the product of a render factory
            label += ':via-factory'
    elif what == 'context-outside-render':
        where = rng.pick(['request', 'endpoint', 'ep'])
        kind = rng.pick(['req', 'kwreq'])
        if where == 'ep':
            cfg['route']['endpoint']['params'].append(['context', kind])
        else:
            add_source(rng, cfg, 'mw-' + where, 'zz')
            mws = [m for m in [m for l in cfg['levels'] for m in l['mws']] + cfg['route']['mws'] if m.get(where)]
            for m in mws:
                for a in ('provides', 'endpoint_provides', 'render_provides'):
                    m[a] = [x for x in m[a] if x != 'zz']
            rng.pick(mws)[where]['params'].append(['context', kind])
        label += ':%s:%s' % (where, kind)
    return cfg, label


PLANTINGS = ['conflict:%s+%s' % p for p in PAIRS] + \
            ['reserved-app-resource', 'reserved-route-resource', 'reserved-url-binding', 'mw-without-next',
             'next-in-endpoint', 'next-in-render', 'context-outside-render'] * 3


def plan(tier, seed):
    return [{'label': 'plant-%d' % i, 'index': i, 'hosts': 10 if tier == 'quick' else 300,
             'timeout': 1200 if tier == 'quick' else 7200} for i in range(NSHARDS)] + \
           [{'label': 'concurrent-construction', 'kind': 'concurrent', 'timeout': 3600}]


def concurrent_construction(sh, spec):
    """Applications are also constructed side by side (two threads building their applications at start-up, a reloader):
    every single-preemption schedule of a construction that must be refused and one that must succeed - both orders - ends with
    the verdict each of them gets when it is constructed alone."""
    import os
    from clastic import Application, Route, Response, Middleware
    from .. import sched
    from ..common import REPO
    roots = (os.path.join(REPO, 'clastic') + os.sep, '<sinter generated')

    def provider(name, phase='request'):
        attr = {'request': 'provides', 'endpoint': 'endpoint_provides', 'render': 'render_provides'}[phase]
        ns = {}
        exec('def hook(next):\n    return next(%s=1)\n' % name, ns)
        return type('Provides_%s_%s' % (name, phase), (Middleware,), {attr: (name,), phase: staticmethod(ns['hook'])})()

    def fn(*names):
        ns = {'Response': Response}
        exec('def ep(%s):\n    return Response("ok")\n' % ', '.join(names), ns)
        return ns['ep']
    builders = {
        'url+resource': lambda: Application([Route('/item/<x>', fn('x'))], resources={'x': 1}),
        'url+provides': lambda: Application([Route('/item/<x>', fn('x'), middlewares=[provider('x')])]),
        'resource+provides': lambda: Application([Route('/item', fn('x'))], resources={'x': 1}, middlewares=[provider('x', 'endpoint')]),
        'provides+provides': lambda: Application([Route('/item', fn('x'), middlewares=[provider('x')])], middlewares=[provider('x', 'endpoint')]),
        'url+builtin': lambda: Application([Route('/item/<request>', fn('request'))]),
        'valid': lambda: Application([Route('/ok/<y>', fn('y', 'z', 'w'), middlewares=[provider('w')]), Route('/also/<x>', fn('x'))],
                                     resources={'z': 1}),
        'valid-2': lambda: Application([Route('/p/<x>', fn('x', 'q'))], resources={'q': 2}, middlewares=[provider('v', 'endpoint')]),
    }

    def job(name):
        def run():
            try:
                builders[name]()
            except Exception as e:
                return type(e).__name__
            return 'constructed'
        return run
    alone = {n: job(n)() for n in builders}
    for n, v in alone.items():
        if v != ('constructed' if n.startswith('valid') else 'NameError'):
            sh.violation('C04/%s' % ('rejected-valid-control' if n.startswith('valid') else 'accepted:conflict'),
                         'constructed alone, %s ends with %s' % (n, v), {'concurrent': n})
            return
    for bad in [n for n in builders if not n.startswith('valid')]:
        for good in ('valid', 'valid-2'):
            for first, second in ((bad, good), (good, bad)):
                n_points = sched.count_points(job(first), roots)
                step = max(1, n_points // (60 if spec.get('tier') == 'quick' else 400))
                for k in range(1, n_points + 1, step):
                    s = sched.Scheduler(2, sched.preempt_once(k), roots)
                    res = s.run([job(first), job(second)])
                    case = {'concurrent': [first, second], 'k': k}
                    sh.case(case, nontrivial=bool(s.switches), klass='concurrent-construction')
                    if s.broken:
                        sh.hit('watchdog-fired')
                        continue
                    sh.hit('schedules:two-constructions')
                    for (tag, val), name in zip(res, (first, second)):
                        if tag != 'ok' or val != alone[name]:
                            key = 'accepted:conflict' if not name.startswith('valid') else 'rejected-valid-control'
                            sh.violation('C04/' + key, 'constructed while another application was being constructed (%s preempted after %d steps, '
                                         '%s built meanwhile), %s ends with %s - alone it ends with %s'
                                         % (first, k, second, name, val if tag == 'ok' else tag, alone[name]), case)
                            return


def run_shard(sh, spec):
    if spec.get('kind') == 'concurrent':
        return concurrent_construction(sh, spec)
    rng = Rng(spec['seed'], PROPERTY, spec['label'])
    from .. import gen_di as g
    sh_exotic[0] = sh_exotic[1] = 0
    try:
        _run_shard(sh, spec, rng, g)
        bound_then_unbound(sh, rng)
    finally:
        sh.hit('conflict-on-an-unusual-name', sh_exotic[0])
        sh.hit('conflict-between-related-middleware-types', sh_exotic[1])


def bound_then_unbound(sh, rng):
    """The 'forgot to bind it' mistake, after the same function was seen in its proper form: a hook function that is fine
    as a bound method (self, next, ...) is then used as a plain function - its first parameter is now 'self', not next."""
    from clastic import Application, Route, Response, Middleware
    for phase in ('request', 'endpoint', 'render'):
        for order in ('bound-first', 'plain-first', 'plain-only'):
            ns = {}
            exec('def hook(self, next):\n    return next()\n', ns)
            T = type('Tagger_%s_%s' % (phase, order), (Middleware,), {phase: ns['hook']})

            def build(mw):
                return Application([Route('/', lambda: Response('ok'), (lambda context: Response('r')))], middlewares=[mw])
            plain = Middleware.__new__(type('Plain_%s_%s' % (phase, order), (Middleware,), {}))
            setattr(plain, phase, ns['hook'])          # the plain function: nothing binds it, its first parameter is 'self'
            steps = {'bound-first': ['bound', 'plain'], 'plain-first': ['plain', 'bound'], 'plain-only': ['plain']}[order]
            for step in steps:
                case = {'scenario': 'bound-then-unbound', 'phase': phase, 'order': order, 'step': step}
                try:
                    app = build(T() if step == 'bound' else plain)
                    err = None
                except Exception as e:
                    err = e
                sh.case(case, nontrivial=True, klass='hook-bound-and-plain')
                if step == 'bound' and err is not None:
                    sh.violation('C04/rejected-valid-control', 'a %s hook given as a bound method (self, next) was refused: %r' % (phase, err), case)
                elif step == 'plain' and err is None:
                    sh.violation('C04/accepted:mw-without-next', 'a %s hook whose first parameter is self (a method used without binding it, %s) '
                                 'was accepted' % (phase, order), case)
                else:
                    sh.hit('planted:mw-without-next')
                    sh.hit('hook-bound-and-plain:' + step)


def _run_shard(sh, spec, rng, g):
    for h in range(spec['hosts']):
        for what in PLANTINGS:
            host = valid_host(rng)
            if host is None:
                sh.hit('no-valid-host')
                continue
            cfg, label = plant(rng, host, what)
            g.fix_all(cfg)
            summary, issues = di.summarize([di.verdict(v) for v in di.views_of(cfg)])
            if summary not in ('reject-name', 'reject-any'):
                sh.hit('planting-ineffective:' + what)
                continue
            sh.hit('planted:' + what)
            if 'url@prefix' in label:
                sh.hit('planted-in-prefix-binding')
            if 'via-factory' in label:
                sh.hit('planted-in-factory-made-render')
            if 'no-params' in label:
                sh.hit('planted-mw-without-any-parameter')
            drive(sh, PROPERTY, cfg, 'planted', requests=(), nontrivial=True)
            if rng.chance(0.15):
                sh.hit('control:accepted')
                drive(sh, PROPERTY, host, 'control', requests=('hit',), nontrivial=True, all_props=True)


def replay(sh, case, spec):
    if 'concurrent' in case:
        return concurrent_construction(sh, dict(spec, tier='thorough'))
    if case.get('scenario') == 'bound-then-unbound':
        return bound_then_unbound(sh, Rng(0, 'replay'))
    replay_cfg(sh, PROPERTY, case)
