# -*- coding: utf-8 -*-
"""C09 - error responses: right status, negotiated format, everything escaped.

Monitor: status, Content-Type and body of error responses taken at the WSGI boundary; the body
is parsed with json / expat / an HTML tokenizer.  Escaping oracle: every dynamic field carries a
canary; no element named vx7q..., no attribute named vx7qattr... may exist in the parsed body
and displayed fields must contain the payload verbatim after parsing."""
import re
import json
import html
from html.parser import HTMLParser
from xml.parsers import expat

from ..common import Rng
from .. import probe, spies

PROPERTY = 'C09'
LEVEL = 'exploration'
RULE = ('cases are (error class of clastic.errors | 404 for a hostile path | uncaught exception with hostile message and '
        'locals) x default/overridden code, message, detail, error_type x payload class (markup, attribute break-out, '
        'pre-escaped entities, template syntax, control and non-ASCII characters, random mixes) x Accept header '
        '(exact, wildcards, q-values, q=0, unsupported, empty, malformed) x default/contextual handler x raised/returned; '
        'a case is non-trivial when an error response (status >= 400 or an HTTPException) was produced and parsed; '
        'distinct by hash of the case')
ASSUMPTIONS = ['content negotiation is judged by acceptability under an independent Accept parser, maximal q only for '
               'headers of exact types with distinct q-values (O6); malformed Accept headers only need a consistent response',
               'XML well-formedness only for fields made of XML 1.0 characters',
               'KeyError-style reprs are not used to carry verbatim payloads']
REQUIRED_REACH = ['format:html', 'format:json', 'format:xml', 'format:text', 'plain-text-fallback', 'accept:absent',
                  'accept:malformed', 'accept:exact-distinct-q', 'accept:wildcard-q', 'debug-500-parsed', 'debug-404-parsed',
                  'canary-as-text:detail', 'canary-as-text:message', 'canary-as-text:error_type', 'canary-as-text:exc_value',
                  'canary-as-text:path', 'canary-as-text:header', 'canary-as-text:query', 'canary-as-text:local',
                  'status-table-checked', 'instance-code-override', 'href-error-type', 'html-structure-checked', 'content-length-compared', 'handler-given-as-object', 'format-query-on-error', 'failing-request-with-upload', 'field-with-lone-surrogate']
NSHARDS = 16

STATUS_TABLE = {
    'BadRequest': 400, 'Unauthorized': 401, 'PaymentRequired': 402, 'Forbidden': 403, 'NotFound': 404,
    'MethodNotAllowed': 405, 'NotAcceptable': 406, 'ProxyAuthenticationRequired': 407, 'RequestTimeout': 408,
    'Conflict': 409, 'Gone': 410, 'LengthRequired': 411, 'PreconditionFailed': 412, 'RequestEntityTooLarge': 413,
    'RequestURITooLong': 414, 'UnsupportedMediaType': 415, 'RequestedRangeNotSatisfiable': 416,
    'ExpectationFailed': 417, 'ImATeapot': 418, 'UnprocessableEntity': 422, 'UpgradeRequired': 426,
    'PreconditionRequired': 428, 'TooManyRequests': 429, 'RequestHeaderFieldsTooLarge': 431,
    'UnavailableForLegalReasons': 451, 'InternalServerError': 500, 'NotImplemented': 501, 'BadGateway': 502,
    'ServiceUnavailable': 503, 'GatewayTimeout': 504, 'HTTPVersionNotSupported': 505,
    'ContextualInternalServerError': 500, 'ContextualNotFound': 404,
}
SUPPORTED = {'text/html': 'html', 'application/json': 'json', 'text/plain': 'text', 'application/xml': 'xml'}
ACCEPTS = [None, '', 'text/html', 'application/json', 'application/xml', 'text/plain', '*/*', 'text/*', 'application/*',
           'image/png', 'image/png, video/mp4;q=0.5', 'text/html;q=0.2, application/json;q=0.9',
           'application/xml;q=0.3, text/plain;q=0.8, application/json;q=0.1', 'text/html;q=0', 'text/html;q=0, */*;q=0',
           '*/*;q=0', 'application/json;q=0, text/html;q=0, text/plain;q=0, application/xml;q=0',
           'application/xml, image/webp;q=0.9', 'text/html,application/xhtml+xml,application/xml;q=0.9,*/*;q=0.8',
           'application/json;q=0.5, application/xml;q=0.7', 'application/json; charset=utf-8', 'text/plain;q=0.001',
           'garbage', ';;;', 'text/html;q=abc', ',', 'a/b/c', 'text/html;;q=1', '*', 'text/html q=1',
           'image/png;q=0.9, text/plain;q=0.1', 'application/xml;q=1.0, application/json;q=0.999',
           'text/html;q=0.1, */*', 'application/xml;q=0.2, application/*', 'application/json;q=0.1, text/html;q=0.2, text/*;q=0.9',
           'text/*;q=0.3, application/json;q=0.2', '*/*;q=0.1, text/plain;q=0.05', 'application/*;q=0.5, text/html;q=0.4, */*;q=0.1',
           # one type with and without a media-type parameter, at different qualities
           'text/html;level=1;q=0.2, text/html;q=0.9, application/json;q=0.6', 'application/json;version=2;q=1.0, application/json;q=0.1, application/xml;q=0.5',
           'text/html;level=1, application/xml;q=0.4', 'application/xml;profile="x";q=0.9, text/plain;q=0.3, application/xml;q=0.1',
           'text/plain;format=flowed;q=0.9, text/html;q=0.5',
           # long real-world headers: size and number of ranges must not matter
           'text/html,application/xhtml+xml,application/xml;q=0.9,image/avif,image/webp,image/apng,*/*;q=0.8,application/signed-exchange;v=b3;q=0.7',
           'application/vnd.api+json, application/vnd.github.v3+json;q=0.95, application/vnd.verif.v2+json;q=0.9, application/hal+json;q=0.8, application/json;q=0.6',
           'application/vnd.verif.t0+json;q=0.9, application/vnd.verif.t1+json;q=0.8, application/vnd.verif.t2+json;q=0.7, application/vnd.verif.t3+json;q=0.6, application/vnd.verif.t4+json;q=0.5, application/vnd.verif.t5+json;q=0.4, application/vnd.verif.t6+json;q=0.3, application/vnd.verif.t7+json;q=0.2, application/vnd.verif.t8+json;q=0.1, application/vnd.verif.t9+json;q=0.9, application/vnd.verif.t10+json;q=0.8, application/vnd.verif.t11+json;q=0.7, application/vnd.verif.t12+json;q=0.6, application/vnd.verif.t13+json;q=0.5, application/vnd.verif.t14+json;q=0.4, application/vnd.verif.t15+json;q=0.3, application/vnd.verif.t16+json;q=0.2, application/vnd.verif.t17+json;q=0.1, application/vnd.verif.t18+json;q=0.9, application/vnd.verif.t19+json;q=0.8, application/xml;q=0.05',
           'image/x-fmt0, image/x-fmt1, image/x-fmt2, image/x-fmt3, image/x-fmt4, image/x-fmt5, image/x-fmt6, image/x-fmt7, image/x-fmt8, image/x-fmt9, image/x-fmt10, image/x-fmt11, image/x-fmt12, image/x-fmt13, image/x-fmt14, image/x-fmt15, image/x-fmt16, image/x-fmt17, image/x-fmt18, image/x-fmt19, image/x-fmt20, image/x-fmt21, image/x-fmt22, image/x-fmt23, image/x-fmt24, image/x-fmt25, image/x-fmt26, image/x-fmt27, image/x-fmt28, image/x-fmt29, image/x-fmt30, image/x-fmt31, image/x-fmt32, image/x-fmt33, image/x-fmt34, image/x-fmt35, image/x-fmt36, image/x-fmt37, image/x-fmt38, image/x-fmt39, text/html;q=0.3',
           'text/plain;q=0.4, audio/x-0;q=0.9, audio/x-1;q=0.9, audio/x-2;q=0.9, audio/x-3;q=0.9, audio/x-4;q=0.9, audio/x-5;q=0.9, audio/x-6;q=0.9, audio/x-7;q=0.9, audio/x-8;q=0.9, audio/x-9;q=0.9, audio/x-10;q=0.9, audio/x-11;q=0.9, audio/x-12;q=0.9, audio/x-13;q=0.9, audio/x-14;q=0.9, audio/x-15;q=0.9, audio/x-16;q=0.9, audio/x-17;q=0.9, audio/x-18;q=0.9, audio/x-19;q=0.9, audio/x-20;q=0.9, audio/x-21;q=0.9, audio/x-22;q=0.9, audio/x-23;q=0.9, audio/x-24;q=0.9, audio/x-25;q=0.9, audio/x-26;q=0.9, audio/x-27;q=0.9, audio/x-28;q=0.9, audio/x-29;q=0.9, audio/x-30;q=0.9, audio/x-31;q=0.9, audio/x-32;q=0.9, audio/x-33;q=0.9, audio/x-34;q=0.9, audio/x-35;q=0.9, audio/x-36;q=0.9, audio/x-37;q=0.9, audio/x-38;q=0.9, audio/x-39;q=0.9, audio/x-40;q=0.9, audio/x-41;q=0.9, audio/x-42;q=0.9, audio/x-43;q=0.9, audio/x-44;q=0.9, audio/x-45;q=0.9, audio/x-46;q=0.9, audio/x-47;q=0.9, audio/x-48;q=0.9, audio/x-49;q=0.9, audio/x-50;q=0.9, audio/x-51;q=0.9, audio/x-52;q=0.9, audio/x-53;q=0.9, audio/x-54;q=0.9, audio/x-55;q=0.9, audio/x-56;q=0.9, audio/x-57;q=0.9, audio/x-58;q=0.9, audio/x-59;q=0.9, audio/x-60;q=0.9, audio/x-61;q=0.9, audio/x-62;q=0.9, audio/x-63;q=0.9, audio/x-64;q=0.9, audio/x-65;q=0.9, audio/x-66;q=0.9, audio/x-67;q=0.9, audio/x-68;q=0.9, audio/x-69;q=0.9']


# ---- independent Accept handling (O6) ----------------------------------------------------------
_TOKEN = r"[!#$%&'*+.^_`|~0-9A-Za-z-]+"
_ITEM = re.compile(r'^\s*(%s)/(%s)((?:\s*;\s*%s=(?:%s|"[^"]*"))*)\s*$' % (_TOKEN, _TOKEN, _TOKEN, _TOKEN))


def parse_accept(h):
    """-> list of (type, subtype, q) for a well-formed header, None for a malformed one"""
    if h is None:
        return []
    if h.strip() == '':
        return []
    out = []
    for item in h.split(','):
        m = _ITEM.match(item)
        if not m:
            return None
        q = 1.0
        skip = False
        for p in m.group(3).split(';'):
            p = p.strip()
            if p and not p.lower().startswith('q='):
                if p.lower().startswith('charset'):
                    return None     # our representations do carry a charset: whether such a range covers them is left open
                # any other media-type parameter: the range covers only representations that have it (RFC 7231 5.3.2) -
                # none of ours does, so it says nothing about them.  Measured before adopting: the unchanged tree agrees
                # with this reading on 20 000 random headers with parameterised ranges.
                skip = True
                continue
            if p.lower().startswith('q='):
                v = p[2:]
                if not re.match(r'^(0(\.\d{0,3})?|1(\.0{0,3})?)$', v):
                    return None
                q = float(v)
        t, s = m.group(1).lower(), m.group(2).lower()
        if t == '*' and s != '*':
            return None
        if not skip:
            out.append((t, s, q))
    return out


def covers(rng, mime):
    t, s = mime.split('/')
    return (rng[0] == '*' and rng[1] == '*') or (rng[0] == t and rng[1] in ('*', s))


def judge_format(accept, chosen):
    """-> (verdict, note): verdict None = fine / don't-care, else text"""
    ranges = parse_accept(accept)
    if ranges is None:
        return None, 'accept:malformed'
    if not ranges:
        return (None if chosen == 'text/plain' else 'no Accept header yet format %s' % chosen), 'accept:absent'
    # RFC 7231 5.3.2: the quality of a media type is that of the most specific range covering it; the chosen
    # format must have the highest quality among the four (ties: any of them).  Measured before adopting it: the
    # unchanged tree agrees with this model on 40 000 random parameter-free headers (DESIGN.md O6, as built).
    def eff_q(mime):
        t, s = mime.split('/')
        best = None
        for rt, rs, q in ranges:
            spec = 3 if (rt == t and rs == s) else 2 if (rt == t and rs == '*') else 1 if (rt == '*' and rs == '*') else 0
            if spec and (best is None or spec > best[0] or (spec == best[0] and q > best[1])):
                best = (spec, q)
        return best[1] if best else 0.0
    qs = dict((m, eff_q(m)) for m in SUPPORTED)
    top = max(qs.values())
    wild = any(t == '*' or sub == '*' for t, sub, q in ranges)
    note = 'accept:wildcard-q' if wild else ('accept:exact-distinct-q' if len(set(q for _, _, q in ranges)) == len(ranges) else 'accept:wellformed')
    if top == 0:
        return (None if chosen == 'text/plain' else 'nothing acceptable yet format %s' % chosen), 'plain-text-fallback'
    if qs.get(chosen, 0) != top:
        return ('format %s (quality %s) chosen although %s has quality %s under %r'
                % (chosen, qs.get(chosen, 0), [m for m in qs if qs[m] == top], top, accept)), note
    return None, note


# ---- payloads ------------------------------------------------------------------------------------
def payload(rng, i):
    forms = ['<vx7q%d a=1>x</vx7q%d>' % (i, i), '"><vx7q%d b=2>' % i, "' vx7qattr%d='1" % i, '" vx7qattr%d="1' % i,
             '&lt;vx7q%d&gt; &amp; &#60;vx7q%d&#62;' % (i, i), '{vx7q%d}{#vx7q%d}x{/vx7q%d}{~lb}{>part/}' % (i, i, i),
             '</p></pre></td></title><vx7q%d>' % i, '<!-- vx7q%d --><script>vx7q%d()</script>' % (i, i),
             '<![CDATA[<vx7q%d>]]>' % i, ']]><vx7q%d/>' % i, 'plain vx7qtext%d' % i,
             # compatibility characters that Unicode normalisation (NFKC/NFKD) or a lossy transcoding turns into markup
             '\uff1cvx7q%d a=1\uff1ex\uff1c/vx7q%d\uff1e' % (i, i), '\ufe64vx7q%d\ufe65 \uff06amp; \uff02 vx7qattr%d=\uff021' % (i, i),
             '\uff02\uff1e\uff1cvx7q%d\uff1e\uff3c' % i,
             # encoded spellings of markup that a decoding step after escaping would bring to life: percent-encoding,
             # backslash escapes, numeric references spelled with an escaped ampersand
             '%%3Cvx7q%d%%20a=1%%3Ex%%3C/vx7q%d%%3E' % (i, i), '%%22%%3E%%3Cvx7q%d%%3E%%26' % i, '%%22%%20vx7qattr%d=%%221' % i,
             '\\u003cvx7q%d\\u003e \\x3cvx7q%d\\x3e' % (i, i), '%%253Cvx7q%d%%253E +%%3Cvx7q%d+b%%3D1%%3E' % (i, i), '\u2039vx7q%d\u203a \u00abvx7q%d\u00bb \uff07' % (i, i)]
    p = rng.pick(forms)
    if rng.chance(0.12):
        # long fields: anything that shortens, wraps or post-processes a field after escaping shows here
        filler = ''.join(rng.pick('&<>"\'ab &&<<') for _ in range(rng.randint(250, 1500)))
        cut = rng.randrange(len(filler))
        p = filler[:cut] + p + filler[cut:]
    if rng.chance(0.35):
        extra = ''.join(rng.pick('<>&"\'{}[]#/\\%;= \t\né☃\x01\x7f`$|~!?:.-_aZ09') for _ in range(rng.randint(1, 12)))
        p = extra + p if rng.chance(0.5) else p + extra
    return p


def displayed(text, payload):
    """Is `payload` shown in `text`?  Verbatim - or, for long payloads, shortened by a clean elision: the longest
    prefix and the longest suffix of the payload that occur in the text are joined by nothing but an elision
    marker (dots / ellipsis / blanks).  A cut through an escape sequence leaves entity debris between the two
    parts and is not accepted."""
    if payload in text:
        return True
    if len(payload) < 200:
        return False
    lo, hi = 0, len(payload)
    while lo < hi:                      # longest prefix present
        mid = (lo + hi + 1) // 2
        if payload[:mid] in text:
            lo = mid
        else:
            hi = mid - 1
    pre = payload[:lo]
    lo2, hi2 = 0, len(payload) - len(pre)
    while lo2 < hi2:                    # longest suffix present (not overlapping the prefix)
        mid = (lo2 + hi2 + 1) // 2
        if payload[len(payload) - mid:] in text:
            lo2 = mid
        else:
            hi2 = mid - 1
    suf = payload[len(payload) - lo2:] if lo2 else ''
    if len(pre) + len(suf) < 100 or not pre or not suf:
        return False
    start = text.find(pre)
    while start != -1:
        rest = text[start + len(pre):]
        j = rest.find(suf)
        if j != -1 and j <= 12 and all(c in ' .…' for c in rest[:j]) and j > 0:
            return True
        start = text.find(pre, start + 1)
    return False


def xml_ok(s):
    return all(c in '\t\n' or '\x20' <= c <= '퟿' or '' <= c <= '�' or c >= '\U00010000' for c in s)


class Tok(HTMLParser):
    def __init__(self):
        HTMLParser.__init__(self, convert_charrefs=True)
        self.tags, self.attrs, self.text, self.comments = [], [], [], []
        self.events = []          # ('start'|'end'|'text', tag or text) in document order

    def handle_starttag(self, tag, attrs):
        self.tags.append(tag)
        self.attrs.extend(attrs)
        self.events.append(('start', tag))

    def handle_startendtag(self, tag, attrs):
        self.tags.append(tag)
        self.attrs.extend(attrs)

    def handle_endtag(self, tag):
        self.events.append(('end', tag))

    def handle_data(self, d):
        self.text.append(d)
        if d.strip():
            self.events.append(('text', d))

    def handle_comment(self, c):
        self.comments.append(c)


def tokenize(body):
    t = Tok()
    t.feed(body)
    t.close()
    return t


STRUCTURAL = ('html', 'head', 'body', 'title', 'h1', 'h2', 'a', 'pre', 'table', 'ul', 'ol', 'div', 'script', 'style')


def structure_problem(tok):
    """one document: a single html element with at most one head and one body, the structural elements properly nested
    and closed, and nothing after the end of the html element"""
    stack = []
    closed_html = False
    seen = {}
    for kind, v in tok.events:
        if closed_html and kind in ('start', 'text'):
            return 'content after the end of the html element: %s %r' % (kind, v[:60])
        if kind == 'start' and v in STRUCTURAL:
            seen[v] = seen.get(v, 0) + 1
            if v in ('html', 'head', 'body') and seen[v] > 1:
                return 'a second <%s> element' % v
            stack.append(v)
        elif kind == 'end' and v in STRUCTURAL:
            if not stack or stack[-1] != v:
                return 'unbalanced </%s> (open: %r)' % (v, stack[-3:])
            stack.pop()
            if v == 'html':
                closed_html = True
    if stack:
        return 'unclosed elements %r' % stack[-3:]
    return None


def markup_injection(tok):
    bad = [t for t in tok.tags if t.startswith('vx7q')]
    bad += ['@' + a for a, _ in tok.attrs if a.startswith('vx7qattr')]
    return bad


# ---- scenario applications -------------------------------------------------------------------------
def http_classes():
    from clastic import errors
    out = []
    for k, v in sorted(vars(errors).items()):
        try:
            if issubclass(v, errors.HTTPException) and v is not errors.HTTPException:
                out.append(k)
        except TypeError:
            pass
    return out


def ep_err():
    from clastic import errors
    spec = probe.current_token()
    cls = getattr(errors, spec['cls'])
    kw = {}
    for k in ('message', 'error_type', 'code'):
        if spec.get(k) is not None:
            kw[k] = spec[k]
    if spec.get('nonbreaking'):
        # deferred: later routes get their turn; nobody answers this path, so the error comes back as the response
        kw['is_breaking'] = False
    e = cls(spec.get('detail'), **kw) if spec['cls'] != 'MethodNotAllowed' else cls(spec.get('allowed'), spec.get('detail'), **kw)
    if spec.get('how') == 'return':
        return e
    raise e


def ep_boom():
    spec = probe.current_token()
    local_value = spec.get('local')          # shows up among the frame's locals on debug pages
    another = {'nested': [local_value]}
    exc = {'ValueError': ValueError, 'RuntimeError': RuntimeError, 'Custom': CustomErr}[spec.get('exc', 'ValueError')](spec.get('msg'))
    frame = spec.get('frame')
    # frames whose names are not identifiers (<lambda>, <genexpr>, <listcomp>-like) end up in tracebacks and debug pages
    if frame == 'lambda':
        return (lambda: _raise(exc))()
    if frame == 'genexpr':
        return list(_raise(exc) for _ in range(1))
    if frame == 'nested-lambda':
        return (lambda f: f())(lambda: (lambda: _raise(exc))())
    raise exc


def _raise(exc):
    raise exc


class CustomErr(Exception):
    pass


_apps = {}


def app_for(kind, how='flag'):
    if how != 'flag':
        # the same two handlers, given to the application as objects (constructor argument, or installed afterwards)
        key = (kind, how)
        if key not in _apps:
            from clastic import errors
            from clastic import Application
            h = errors.ContextualErrorHandler() if kind == 'debug' else errors.ErrorHandler()
            if how == 'below-middlewares':
                # the same application below the built-in middlewares that look at responses (compression, client caching):
                # errors - raised or returned - come out as they do without them
                from clastic.middleware import GzipMiddleware
                from clastic.middleware.client_cache import HTTPCacheMiddleware
                _apps[key] = Application(scenario_routes(), middlewares=[GzipMiddleware(), HTTPCacheMiddleware()], debug=(kind == 'debug'))
            elif how == 'instance':
                _apps[key] = Application(scenario_routes(), error_handler=h)
            else:
                _apps[key] = Application(scenario_routes())
                _apps[key].set_error_handler(h)
        return _apps[key]
    if kind not in _apps:
        from clastic import Application
        _apps[kind] = Application(scenario_routes(), debug=(kind == 'debug'))
    return _apps[kind]


def scenario_routes():
    if True:
        from clastic import Route
        from clastic import render_basic, render_json
        routes = [Route('/err', ep_err), Route('/boom', ep_boom), Route('/only-get', lambda: None, methods=['GET']),
                  Route('/item/<name>/', ep_boom), Route('/only-post', lambda: None, methods=['POST', 'PUT']),
                  # the same endpoints on routes that have a renderer (it has no say over errors)
                  Route('/err-rendered', ep_err, render_basic), Route('/err-json', ep_err, render_json),
                  Route('/boom-rendered', ep_boom, render_basic)]
    return routes


# ---- cases ------------------------------------------------------------------------------------------
def gen_case(rng, n):
    kind = rng.pick(['class', 'class', 'class', 'class', '404', 'uncaught', 'uncaught', '405'])
    case = {'kind': kind, 'handler': rng.pick(['default', 'debug']), 'accept': rng.pick(ACCEPTS), 'n': n}
    if rng.chance(0.3):
        case['handler_how'] = rng.pick(['instance', 'set-later', 'below-middlewares', 'below-middlewares'])
        if case['handler_how'] == 'below-middlewares':
            case['mw_headers'] = rng.pick([{'Accept-Encoding': 'gzip'}, {'Accept-Encoding': 'gzip', 'If-None-Match': '*'}, {'If-None-Match': '"abc"'}, {}])
    if rng.chance(0.2):
        # a query parameter that means something to the *renderers* of successful answers: error formats follow Accept
        case['fmtq'] = rng.pick(['format=json', 'format=html', 'format=xml', 'format=text', 'format=', 'format=yaml', 'format=json&format=html'])
    if kind == 'uncaught' and rng.chance(0.2):
        case['upload'] = True     # the failing request carries an uploaded file

    if rng.chance(0.45):
        case['accept'] = rng.pick(['text/html', 'application/json', 'application/xml', 'text/html', '*/*'])
    if kind == 'class':
        case['cls'] = rng.pick(CLASSES)
        case['how'] = rng.pick(['raise', 'return'])
        case['nonbreaking'] = rng.chance(0.3)
        case['via'] = rng.pick(['/err', '/err', '/err-rendered', '/err-json'])
        for f in ('detail', 'message', 'error_type'):
            if rng.chance(0.6):
                case[f] = payload(rng, n)
        if rng.chance(0.25):
            case['error_type'] = rng.pick(['http://example.net/e/', 'https://x.test/?', 'http']) + payload(rng, n)
        if rng.chance(0.2):
            case['code'] = rng.pick([400, 418, 499, 500, 599, 404])
        if case['cls'] == 'MethodNotAllowed':
            case['allowed'] = rng.pick([None, ['GET'], ['POST', 'PUT']])
    elif kind == '404':
        case['path'] = '/' + payload(rng, n).replace('\n', ' ').replace('\t', ' ') + rng.pick(['', '/x', '/'])
        case['query'] = rng.pick(['', 'k=v'])
    elif kind == '405':
        case['path405'] = rng.pick(['/only-get', '/only-post'])
        case['method'] = rng.pick(['POST', 'DELETE', 'FOO']) if case['path405'] == '/only-get' else rng.pick(['GET', 'DELETE', 'PATCH'])
    else:
        case['exc'] = rng.pick(['ValueError', 'RuntimeError', 'Custom'])
        case['msg'] = payload(rng, n)
        case['local'] = payload(rng, n + 1000000)
        case['hdr'] = payload(rng, n + 2000000).replace('\n', ' ').replace('\t', ' ').replace('\x01', '').replace('\x7f', '')
        case['qv'] = payload(rng, n + 3000000)
        case['via'] = rng.pick(['/boom', '/item/%s/', '/boom-rendered'])
        case['frame'] = rng.pick([None, None, 'lambda', 'genexpr', 'nested-lambda'])
        case['seg'] = payload(rng, n + 4000000).replace('/', '_').replace('\n', ' ').replace('\t', ' ')
    if kind in ('class', 'uncaught') and rng.chance(0.06):
        # a lone surrogate in a field (a file name from os.fsdecode, text cut in the middle of a character pair)
        case['surrogate'] = True
        sur = rng.pick(['caf\udce9.txt', 'token \ud83d cut', '\udc00', 'x\udfff\ud800y'])
        if kind == 'class':
            case[rng.pick(['detail', 'message', 'error_type'])] = sur
        else:
            case['msg'] = sur
    return case


CLASSES = []


def send(case):
    from urllib.parse import quote
    app = app_for(case['handler'], case.get('handler_how') or 'flag')
    fq = case.get('fmtq') or ''
    headers = dict(case.get('mw_headers') or {})
    if case.get('accept') is not None:
        headers['Accept'] = case['accept']
    kind = case['kind']
    if kind == 'class':
        return probe.request(app, 'GET', case.get('via', '/err'), fq, headers=headers, token=case, trace=spies.new_trace())
    if kind == '404':
        return probe.request(app, 'GET', case['path'], '&'.join(x for x in (case.get('query', ''), fq) if x), headers=headers, token=case)
    if kind == '405':
        return probe.request(app, case['method'], case.get('path405', '/only-get'), fq, headers=headers, token=case)
    headers['X-Canary'] = case['hdr'].encode('utf8').decode('latin-1')
    q = 'canary=' + quote(case['qv'], safe='')
    path = case['via'] if '%s' not in case['via'] else case['via'] % case['seg']
    if fq:
        q += '&' + fq
    if case.get('upload'):
        headers['Content-Type'] = 'multipart/form-data; boundary=vx7qboundary'
        body = (b'--vx7qboundary\r\nContent-Disposition: form-data; name="note"\r\n\r\nhello\r\n'
                b'--vx7qboundary\r\nContent-Disposition: form-data; name="attachment"; filename="report.txt"\r\n'
                b'Content-Type: text/plain\r\n\r\nfile body\r\n--vx7qboundary--\r\n')
        return probe.request(app, 'POST', path, q, headers=headers, body=body, token=case)
    return probe.request(app, 'GET', path, q, headers=headers, token=case)


def judge(sh, case, record=True):
    ex = send(case)
    kind = case['kind']
    brief = {k: v for k, v in case.items() if k != 'n'}

    def bad(key, what):
        sh.violation('C09/' + key, '%s -> %s' % (json.dumps(brief, default=repr, ensure_ascii=True)[:700], what), case)

    if ex.exc is not None:
        bad('exception-escaped', '%s escaped' % probe.safe_repr(ex.exc)[:300])
        return
    if ex.length_problem():
        # the representation is what a client reads: the announced number of bytes of what was sent
        bad('content-length-differs-from-body', ex.length_problem())
        return
    sh.hit('content-length-compared')
    if case.get('handler_how'):
        sh.hit('handler-given-as-object')
    if case.get('fmtq'):
        sh.hit('format-query-on-error')
    if case.get('upload'):
        sh.hit('failing-request-with-upload')
    nontrivial = ex.status is not None and (ex.status >= 400 or kind == 'class')
    if record:
        canon = json.loads(re.sub(r'vx7q(attr|text)?\d+', 'vx7q', json.dumps(brief, default=repr)))
        sh.case(canon, nontrivial=nontrivial, klass='%s:%s' % (kind, case['handler']),
                sample=dict(brief, status=ex.status, content_type=ex.header('Content-Type')))
    # ---- status ----------------------------------------------------------------------------------
    if kind == 'class':
        want = case.get('code') or STATUS_TABLE.get(case['cls'])
        if case.get('code'):
            sh.hit('instance-code-override')
        if want is None:
            sh.hit('class-not-in-status-table')
        else:
            sh.hit('status-table-checked')
            if ex.status != want:
                bad('wrong-status', 'status %s, the table says %s' % (ex.status, want))
                return
    elif kind == '404' and ex.status != 404:
        bad('wrong-status', 'status %s for an unknown path' % ex.status)
        return
    elif kind == '405' and ex.status != 405:
        bad('wrong-status', 'status %s for a wrong method' % ex.status)
        return
    elif kind == 'uncaught' and ex.status != 500:
        bad('wrong-status', 'status %s for an uncaught exception' % ex.status)
        return
    # ---- a 405 speaks about *its* methods ---------------------------------------------------------------
    want_methods = None
    if kind == '405':
        want_methods = {'/only-get': {'GET', 'HEAD'}, '/only-post': {'POST', 'PUT'}}[case.get('path405', '/only-get')]
    elif kind == 'class' and case.get('cls') == 'MethodNotAllowed' and case.get('allowed') and not case.get('detail'):
        want_methods = set(case['allowed'])
    if want_methods is not None and ex.status == 405 and case.get('code') is None:
        named = set(re.findall(r"\b(GET|HEAD|POST|PUT|DELETE|PATCH|OPTIONS|TRACE|CONNECT)\b", html.unescape(ex.body.decode('utf8', 'replace'))))
        allow = set(x.strip() for x in (ex.header('Allow') or '').split(',') if x.strip())
        if allow != want_methods or (named and named != want_methods):
            bad('405-names-other-methods', 'the route admits %s; Allow header %r, methods named in the body %s'
                % (sorted(want_methods), ex.header('Allow'), sorted(named)))
            return
        sh.hit('405-methods-compared')
    # ---- format negotiation -------------------------------------------------------------------------
    ctype = ex.header('Content-Type') or ''
    mime = ctype.split(';')[0].strip().lower()
    if mime not in SUPPORTED:
        bad('unsupported-content-type', 'Content-Type %r' % ctype)
        return
    fmt = SUPPORTED[mime]
    sh.hit('format:' + fmt)
    verdict, note = judge_format(case.get('accept'), mime)
    sh.hit(note)
    if verdict:
        bad('negotiation', verdict)
        return
    try:
        raw_body = ex.body
        if (ex.header('Content-Encoding') or '').lower() == 'gzip':
            import gzip as _gzip
            try:
                raw_body = _gzip.decompress(raw_body)
                sh.hit('error-body-compressed')
            except Exception as e:
                bad('body-not-what-its-content-encoding-says', 'Content-Encoding: gzip, but the body does not decompress (%s): %r' % (e, ex.body[:60]))
                return
        body = raw_body.decode('utf8')
    except UnicodeError:
        bad('body-not-utf8', 'body %r' % ex.body[:80])
        return
    if case.get('surrogate'):
        # text with a lone surrogate cannot be shown verbatim in any encoding: status, negotiated format, a decodable body and
        # (for JSON) a parsable one are what is asked of the answer - how the character is spelled is not
        sh.hit('field-with-lone-surrogate')
        if fmt == 'json':
            try:
                json.loads(body)
            except ValueError as e:
                bad('json-unparsable', '%s: %r' % (e, body[:200]))
        return
    # ---- body agrees with the content type; fields displayed; nothing injected -----------------------------
    fields = {}
    if kind == 'class':
        for f in ('detail', 'message', 'error_type'):
            if isinstance(case.get(f), str):
                fields[f] = case[f]
    if fmt == 'json':
        try:
            data = json.loads(body)
        except ValueError as e:
            bad('json-unparsable', '%s: %r' % (e, body[:200]))
            return
        if not isinstance(data, dict) or any(k not in data for k in ('code', 'message', 'detail', 'error_type')):
            bad('json-missing-field', 'keys %r' % (sorted(data) if isinstance(data, dict) else type(data)))
            return
        if data['code'] != ex.status:
            bad('json-wrong-code', 'code %r in a %s response' % (data['code'], ex.status))
            return
        for f, v in fields.items():
            if data.get(f) != v:
                bad('json-field-differs', '%s is %r, expected %r' % (f, data.get(f), v))
                return
        return
    if fmt == 'text':
        return
    if fmt == 'xml':
        representable = all(xml_ok(v) for v in fields.values()) and xml_ok(case.get('msg') or '')
        texts = {}
        if representable:
            cur = []
            p = expat.ParserCreate()
            p.StartElementHandler = lambda name, attrs: cur.append([name, ''])
            p.CharacterDataHandler = lambda d: cur and cur[-1].__setitem__(1, cur[-1][1] + d)
            try:
                p.Parse(body, True)
            except expat.ExpatError as e:
                bad('xml-not-wellformed', '%s: %r' % (e, body[:300]))
                return
            names = [c[0] for c in cur]
            if any(n.startswith('vx7q') for n in names):
                bad('xml-markup-injection', 'elements %r' % names)
                return
            texts = dict((c[0], c[1]) for c in cur)
            for f, v in fields.items():
                if texts.get(f) != v and not displayed(texts.get(f) or '', v):
                    bad('xml-field-differs', '%s is %r, expected %r' % (f, texts.get(f), v))
                    return
                sh.hit('canary-as-text:' + f)
        else:
            tok = tokenize(body)
            if markup_injection(tok):
                bad('xml-markup-injection', 'elements/attributes %r' % markup_injection(tok))
        return
    # ---- html ---------------------------------------------------------------------------------------
    tok = tokenize(body)
    if 'html' not in tok.tags:
        bad('html-without-html-element', 'tags %r' % tok.tags[:10])
        return
    inj = markup_injection(tok)
    if inj:
        bad('html-markup-injection', 'canary became markup: %r' % inj[:6])
        return
    sp = structure_problem(tok)
    if sp:
        bad('html-not-well-formed', sp)
        return
    sh.hit('html-structure-checked')
    text = ''.join(tok.text)
    attr_values = [v for _, v in tok.attrs if v]
    if kind == 'class':
        ctx_page = case['cls'] in ('ContextualInternalServerError', 'ContextualNotFound')   # own page layout
        if not ctx_page:
            for f, v in fields.items():
                if not displayed(text, v):
                    bad('html-field-not-verbatim', '%s %r does not appear as text in the page (text starts %r)' % (f, v, text[:200]))
                    return
                sh.hit('canary-as-text:' + f)
            et = case.get('error_type')
            if isinstance(et, str) and et.startswith('http'):
                sh.hit('href-error-type')
                if et not in attr_values:
                    bad('html-href-not-verbatim', 'error_type %r not found as an attribute value (%r)' % (et, attr_values[:4]))
        return
    if kind == '404' and case['handler'] == 'debug':
        sh.hit('debug-404-parsed')
        shown = '/' + case['path'].lstrip('/')      # Werkzeug folds repeated leading slashes
        if shown not in text:
            bad('html-field-not-verbatim', 'request path %r does not appear as text in the debug 404 page' % shown)
            return
        sh.hit('canary-as-text:path')
    if kind == 'uncaught' and case['handler'] == 'debug':
        sh.hit('debug-500-parsed')
        for name, v in (('exc_value', case['msg']), ('header', case['hdr'].encode('utf8').decode('latin-1')), ('query', case['qv'])):
            if not displayed(text, v) and not (name == 'query' and repr(v) in text):     # URL params are shown as reprs
                bad('html-field-not-verbatim', '%s %r does not appear as text in the debug 500 page' % (name, v))
                return
            sh.hit('canary-as-text:' + name)
        if repr(case['local']) in text or case['local'] in text:
            sh.hit('canary-as-text:local')
        else:
            bad('html-field-not-verbatim', 'local variable value %r does not appear in the debug 500 page' % case['local'])
            return
        if '%s' in case['via']:
            if case['seg'] in text:
                sh.hit('canary-as-text:path')
            else:
                bad('html-field-not-verbatim', 'request path segment %r does not appear in the debug 500 page' % case['seg'])


def plan(tier, seed):
    return [{'label': 'rand-%d' % i, 'n': 1900 if tier == 'quick' else 95000, 'timeout': 7200} for i in range(NSHARDS)]


def run_shard(sh, spec):
    CLASSES[:] = http_classes()
    rng = Rng(spec['seed'], PROPERTY, spec['label'])
    base = int(spec['label'].split('-')[1]) * 10000000
    for i in range(spec['n']):
        judge(sh, gen_case(rng, base + i))
    # every class at least once per format, default fields
    for cls in CLASSES:
        for acc in ('text/html', 'application/json', 'application/xml', None):
            for how in ('raise', 'return'):
                judge(sh, {'kind': 'class', 'handler': 'default', 'accept': acc, 'cls': cls, 'how': how, 'n': 0})


def replay(sh, case, spec):
    CLASSES[:] = http_classes()
    judge(sh, case, record=False)
    ex = send(case)
    sh.notes['exchange'] = {'status': ex.status, 'content_type': ex.header('Content-Type'), 'body': ex.body[:1500]}
