# -*- coding: utf-8 -*-
"""C11 - binding is non-destructive, applications are isolated, add() is atomic.

Monitor: model-based.  The harness keeps, for every live application, a model routing table
(pattern, methods, behaviour, middleware stamps); after every operation of a random history
every live application's [r.pattern for r in app.routes] must equal its model table, probe
requests must be answered as the reference dispatcher predicts from the model table, and the
attribute fingerprint of every unbound Route and of every embedded Application must be unchanged."""
import os
from ..common import Rng
from .. import probe, spies, tables
from ..models import dispatch as md
from ..models import urlmatch as um

PROPERTY = 'C11'
LEVEL = 'exploration'
RULE = ('cases are histories (quick <=12, thorough <=40 operations, <=6 live applications) over {construct application, add '
        'route / tuple / sub-application at an index (None, in range, negative, overshooting), add an entry that fails '
        '[unresolved dependency, name conflict, bad pattern, bad middleware, failing as the k-th route of an embedded '
        'application], embed application A in B, bind one Route object into several applications, request}; after every '
        'step every live application is compared with its model; a history is non-trivial when it contains an embedding or a '
        'failing add; distinct by hash of the operation list')
ASSUMPTIONS = ['indices are interpreted as list.insert interprets them', 'patterns are leaves (no slash redirects: a non-canonical path is served directly unless the route is bound in the strict mode)',
               'every application uses its own middleware type (no cross-application uniqueness merging)']
REQUIRED_REACH = ['one-middleware-class-several-instances', 'middleware-types-related-by-inheritance', 'application-options-compared', 'application-options-compared:defaults', 'app-resource-named-like-a-route-resource', 'op:construct', 'op:add-route', 'op:add-tuple', 'op:add-subapp', 'op:embed-existing', 'op:rebind-route',
                  'op:failing-add', 'fail:unresolved', 'fail:conflict', 'fail:bad-pattern', 'fail:bad-middleware',
                  'fail:kth-of-subapp', 'fail:kth-of-subapp:k>1', 'index:negative', 'index:overshooting', 'index:negative-multi',
                  'route-bound-into>=2-apps', 'embedded-app-used-directly-later', 'probes-compared', 'fingerprints-compared', 'app-with-render-factory',
                  'embedded-route-with-render-arg', 'renderer-compared', 'non-canonical-probe', 'add-without-inheriting-slashes',
                  'embed-without-inheriting-slashes', 'prefix-outside-ascii', 'subapplication-object-reused']
NSHARDS = 16
PATTERNS = ['/a', '/a/<x>', '/<x>', '/b', '/a/b', '/c/<y>', '/<x>/<y>', '/d']
BEHS = ['ok', 'ok', 'ok', 'raise_nb_404', 'return_nb_403', 'raise_403', 'uncaught']
METHOD_SETS = [None, None, ['GET'], ['POST'], ['GET', 'POST']]


class World(object):
    def __init__(self, sh, rng):
        self.sh, self.rng = sh, rng
        self.apps = []        # dicts: {'app', 'label', 'table', 'mws', 'resources', 'embedded_in': n}
        self.routes = []      # dicts: {'route', 'spec', 'fp', 'bound': n}
        self.n = 0
        self.ops = []
        self.embed_happened = {}

    # -- real objects --------------------------------------------------------------------------------
    def new_spec(self):
        self.n += 1
        return {'rid': 'r%d' % self.n, 'pattern': self.rng.pick(PATTERNS), 'methods': self.rng.pick(METHOD_SETS),
                'beh': self.rng.pick(BEHS), 'mode': self.rng.pick([None, None, 'strict', 'rewrite', 'redirect']), 'render_arg': self.rng.chance(0.3), 'route_res': self.rng.chance(0.3), 'with_render': self.rng.chance(0.3)}

    def stamp_mw(self, label):
        from clastic import Middleware

        def request(self_, next):
            r = next()
            try:
                r.headers.add('X-MW', self_.label)
            except Exception:
                pass
            return r

        def wsgi_wrapper(self_, wsgi_app):
            # the middleware also wraps the WSGI callable of the application it is installed in (at construction): every
            # answer of *that* application - errors included - passes through it, no other application's does
            def wrapped(environ, start_response):
                def sr(status, headers, exc_info=None):
                    return start_response(status, list(headers) + [('X-WSGI', self_.label)], exc_info) if exc_info else \
                        start_response(status, list(headers) + [('X-WSGI', self_.label)])
                return wsgi_app(environ, sr)
            return wrapped
        self.__dict__.setdefault('mw_type', {})
        if getattr(self, 'stamp_classes', None) and self.rng.chance(0.25):
            # another instance of a class some other application uses already: where both meet on a route, the one of the
            # embedding application stays (a unique type appears once) - and it is *that* instance, stamping its own label
            cls = self.rng.pick(self.stamp_classes)
            inst = cls()
            inst.label = label
            self.mw_type[label] = cls.__name__
            self.sh.hit('one-middleware-class-several-instances')
            return inst
        # middleware types of different applications are often related by inheritance (a project's base middleware):
        # related is not the same - each is a type of its own
        base = Middleware
        if getattr(self, 'stamp_classes', None) and self.rng.chance(0.5):
            base = self.rng.pick(self.stamp_classes)
            self.sh.hit('middleware-types-related-by-inheritance')
        cls = type('Stamp_%s' % label, (base,), {'request': request, 'wsgi_wrapper': wsgi_wrapper})
        self.__dict__.setdefault('stamp_classes', []).append(cls)
        inst = cls()
        inst.label = label
        self.mw_type[label] = cls.__name__
        return inst

    def route_fp(self, route):
        return (route.pattern, id(route.endpoint), id(route.render), tuple(id(m) for m in route.middlewares),
                tuple(sorted((k, id(v)) for k, v in route.resources.items())),
                tuple(sorted(route.methods)) if route.methods else None, route.slash_mode, id(route.render_error))

    def app_fp(self, a):
        app = a['app']
        return (tuple(id(r) for r in app.routes), tuple(id(m) for m in app.middlewares),
                tuple(sorted((k, id(v)) for k, v in app.resources.items())), id(app.error_handler), app.slash_mode)

    # -- operations --------------------------------------------------------------------------------------------
    def op_construct(self):
        from clastic import Application
        label = 'A%d' % len(self.apps)
        n0 = self.rng.pick([0, 0, 1, 2, 3])
        specs = [self.new_spec() for _ in range(n0)]
        has_mw = self.rng.chance(0.5)
        mws = [self.stamp_mw(label)] if has_mw else []
        res = {'res_' + label: object()} if self.rng.chance(0.4) else {}
        if self.rng.chance(0.35):
            res['res_shared'] = object()     # a name that some routes carry as a resource of their own
            self.sh.hit('app-resource-named-like-a-route-resource')
        if self.rng.chance(0.25):
            res['y'] = object()         # makes embedding a route with binding <y> fail here (conflict)
            specs = [s for s in specs if 'y>' not in s['pattern']]
        entries = []
        for s in specs:
            rt = tables.make_route(s)
            self.routes.append({'route': rt, 'spec': s, 'fp': self.route_fp(rt), 'bound': 1})
            entries.append(rt)
        factory = label if self.rng.chance(0.4) else None
        # options given explicitly to one application are that application's: the next one built with defaults gets defaults
        opts = {}
        if self.rng.chance(0.45):
            opts['slash_mode'] = self.rng.pick(['redirect', 'strict', 'rewrite'])
        if self.rng.chance(0.3):
            opts['debug'] = self.rng.pick([True, False])
        app = Application(entries, resources=res, middlewares=mws,
                          render_factory=tables.make_factory(label) if factory else None, **opts)
        a = {'app': app, 'label': label, 'mode': opts.get('slash_mode', 'redirect'), 'debug': bool(opts.get('debug')), 'opts': sorted(opts), 'mws': [label] if has_mw else [], 'resources': sorted(res), 'factory': factory,
             'table': [dict(s, mode=opts.get('slash_mode', 'redirect'), mws=[label] if has_mw else [], render=self.bound_render(s, factory)) for s in specs],
             'embedded_in': 0, 'used_after_embed': False}
        if factory:
            self.sh.hit('app-with-render-factory')
        self.apps.append(a)
        self.ops.append(['construct', label, [s['rid'] for s in specs], has_mw, sorted(res)])
        self.sh.hit('op:construct')

    @staticmethod
    def bound_render(spec, factory):
        """which factory renders a route with a render argument once it is bound into an application"""
        if not spec.get('render_arg'):
            return None
        return factory or 'noop'

    def pick_index(self, a, multi=False):
        n = len(a['table'])
        c = self.rng.randrange(5)
        if c == 0:
            return None
        if c == 1:
            return self.rng.randint(0, n)
        if c == 2:
            self.sh.hit('index:negative')
            if multi:
                self.sh.hit('index:negative-multi')
            return -self.rng.randint(1, n + 2)
        if c == 3:
            self.sh.hit('index:overshooting')
            return n + self.rng.randint(1, 3)
        return 0

    @staticmethod
    def insert_block(table, index, block):
        if index is None:
            index = len(table)
        probe_list = list(range(len(table)))
        probe_list.insert(index, 'X')            # list.insert's own interpretation of the index
        pos = probe_list.index('X')
        table[pos:pos] = block

    def op_add_route(self, form):
        if not self.apps:
            return self.op_construct()
        a = self.rng.pick(self.apps)
        s = self.new_spec()
        if 'y' in a['resources'] and 'y>' in s['pattern']:
            s['pattern'] = '/d'
        idx = self.pick_index(a)
        kw = {} if idx is None else {'index': idx}
        mode = a.get('mode', 'redirect')
        if form != 'tuple' and self.rng.chance(0.25):
            # the route keeps the slash mode it was declared with (this add only: the next entry inherits again)
            kw['inherit_slashes'] = False
            mode = s.get('mode') or 'redirect'
            self.sh.hit('add-without-inheriting-slashes')
        if form == 'tuple':
            ep = tables.make_endpoint(s['rid'], s['beh'], tables.bindings_of(s['pattern']))
            s['methods'] = None
            s['render_arg'] = False
            ep = tables.make_endpoint(s['rid'], s['beh'], tables.bindings_of(s['pattern']))
            a['app'].add((s['pattern'], ep), **kw)
            self.sh.hit('op:add-tuple')
        else:
            rt = tables.make_route(s)
            self.routes.append({'route': rt, 'spec': s, 'fp': self.route_fp(rt), 'bound': 1})
            a['app'].add(rt, **kw)
            self.sh.hit('op:add-route')
        self.insert_block(a['table'], idx, [dict(s, mode=mode, mws=list(a['mws']), render=self.bound_render(s, a['factory']))])
        self.ops.append(['add-' + form, a['label'], s['rid'], s['pattern'], idx, kw.get('inherit_slashes', True)])
        self.touch(a)

    def op_rebind_route(self):
        if not self.routes or not self.apps:
            return self.op_construct()
        r = self.rng.pick(self.routes)
        a = self.rng.pick(self.apps)
        if 'y' in a['resources'] and 'y>' in r['spec']['pattern']:
            return
        idx = self.pick_index(a)
        kw = {} if idx is None else {'index': idx}
        mode = a.get('mode', 'redirect')
        if self.rng.chance(0.25):
            kw['inherit_slashes'] = False
            mode = r['spec'].get('mode') or 'redirect'
            self.sh.hit('add-without-inheriting-slashes')
        a['app'].add(r['route'], **kw)
        r['bound'] += 1
        if r['bound'] >= 2:
            self.sh.hit('route-bound-into>=2-apps')
        self.insert_block(a['table'], idx, [dict(r['spec'], mode=mode, mws=list(a['mws']), render=self.bound_render(r['spec'], a['factory']))])
        self.ops.append(['rebind-route', a['label'], r['spec']['rid'], idx])
        self.sh.hit('op:rebind-route')
        self.touch(a)

    def op_embed(self, fresh):
        from clastic import Application, SubApplication
        if not self.apps:
            return self.op_construct()
        target = self.rng.pick(self.apps)
        if fresh or len(self.apps) < 2:
            self.op_construct()
            inner = self.apps[-1]
            self.sh.hit('op:add-subapp')
        else:
            inner = self.rng.pick([x for x in self.apps if x is not target])
            self.sh.hit('op:embed-existing')
        if inner is target:
            return
        # would the embedding conflict in the target?  (resource y vs binding <y>): that is the failing-add case
        conflict = 'y' in target['resources'] and any('y>' in e['pattern'] for e in inner['table'])
        prefix = self.rng.pick(['/e%d' % self.n, '/e%d/' % self.n, '/e%d/f' % self.n])
        if self.rng.chance(0.15):
            # prefixes outside ASCII: precomposed, decomposed (not NFC), compatibility characters, CJK
            prefix = self.rng.pick(['/caf\u00e9%d', '/cafe\u0301%d', '/\u212bng%d/', '/\u65e5\u672c%d', '/\ufb01%d/f']) % self.n
            self.sh.hit('prefix-outside-ascii')
        idx = self.pick_index(target, multi=len(inner['table']) > 1)
        kw = {} if idx is None else {'index': idx}
        inherit = True
        reusable = [sa for sa in getattr(self, 'subapps', []) if sa['inner'] is not target and sa['inner'] in self.apps]
        if reusable and self.rng.chance(0.35):
            # the same SubApplication *object* used for another embedding: it embeds the application as it is now
            sa = self.rng.pick(reusable)
            inner, prefix, inherit, entry = sa['inner'], sa['prefix'], sa['inherit'], sa['obj']
            conflict = 'y' in target['resources'] and any('y>' in e['pattern'] for e in inner['table'])
            idx = self.pick_index(target, multi=len(inner['table']) > 1)
            kw = {} if idx is None else {'index': idx}
            self.sh.hit('subapplication-object-reused')
        elif self.rng.chance(0.5):
            entry = (prefix, inner['app'])
        else:
            # an embedding may opt out of the target's slash mode: the embedded routes keep theirs - this embedding only
            inherit = self.rng.chance(0.6)
            entry = SubApplication(prefix, inner['app']) if inherit and self.rng.chance(0.5) else SubApplication(prefix, inner['app'], inherit_slashes=inherit)
            if not inherit:
                self.sh.hit('embed-without-inheriting-slashes')
            self.__dict__.setdefault('subapps', []).append({'obj': entry, 'inner': inner, 'prefix': prefix, 'inherit': inherit})
        before = self.snapshot()
        if conflict:
            k = [i for i, e in enumerate(inner['table']) if 'y>' in e['pattern']][0] + 1
            self.expect_failure(lambda: target['app'].add(entry, **kw), 'kth-of-subapp', before,
                                ['embed-conflict', target['label'], inner['label'], prefix, idx, k])
            self.sh.hit('fail:kth-of-subapp')
            if k > 1:
                self.sh.hit('fail:kth-of-subapp:k>1')
            return
        target['app'].add(entry, **kw)
        # renderers are not re-bound by default: an embedded route keeps the factory it was bound with, unless it
        # had none - then the embedding application's factory fills in
        block = [dict(e, pattern=prefix.rstrip('/') + e['pattern'], mode=(target.get('mode', 'redirect') if inherit else e.get('mode', 'redirect')),
                      mws=list(target['mws']) + [m for m in e['mws'] if self.mw_type.get(m, m) not in [self.mw_type.get(t, t) for t in target['mws']]],
                      render=(target['factory'] if (e.get('render') == 'noop' and target['factory']) else e.get('render')))
                 for e in inner['table']]
        if any(e.get('render') for e in block):
            self.sh.hit('embedded-route-with-render-arg')
        self.insert_block(target['table'], idx, block)
        inner['embedded_in'] += 1
        self.ops.append(['embed', target['label'], inner['label'], prefix, idx])
        self.touch(target)

    def touch(self, a):
        if a['embedded_in']:
            a['used_after_embed'] = True
            self.sh.hit('embedded-app-used-directly-later')

    def snapshot(self):
        return [([r.pattern for r in a['app'].routes], self.app_fp(a)) for a in self.apps]

    def expect_failure(self, fn, kind, before, op):
        self.ops.append(['failing-add', kind] + op)
        self.sh.hit('op:failing-add')
        try:
            fn()
        except Exception as e:
            self.last_error = e
        else:
            self.sh.violation('C11/failing-entry-accepted', 'an entry that must fail (%s) was accepted: %r' % (kind, op),
                              {'ops': self.ops})
            self.dead = True
            return
        after = self.snapshot()
        if after != before:
            changed = [self.apps[i]['label'] for i in range(len(before)) if before[i] != after[i]]
            self.sh.violation('C11/failed-add-changed-an-application',
                              'a failing add (%s: %s) changed application(s) %s: routes before %r, after %r'
                              % (kind, type(self.last_error).__name__, changed,
                                 [b[0] for b in before], [x[0] for x in after]), {'ops': self.ops})
            self.dead = True

    def op_failing_add(self):
        from clastic import Route, Middleware
        if not self.apps:
            return self.op_construct()
        a = self.rng.pick(self.apps)
        kind = self.rng.pick(['unresolved', 'conflict', 'bad-pattern', 'bad-middleware'])
        idx = self.pick_index(a)
        kw = {} if idx is None else {'index': idx}
        before = self.snapshot()
        if kind == 'unresolved':
            entry = lambda: a['app'].add(('/u/<k>', lambda k, nobody_provides_this: None), **kw)
        elif kind == 'conflict':
            if a['resources']:
                nm = a['resources'][0]
                src = 'def ep(%s):\n    return None\n' % nm
                ns = {}
                exec(src, ns)
                entry = lambda: a['app'].add(('/q/<%s>' % nm, ns['ep']), **kw)
            else:
                entry = lambda: a['app'].add(('/q/<request>', lambda request: None), **kw)
        elif kind == 'bad-pattern':
            pat = self.rng.pick(['no-slash', '/a//b', '/<x>/<x>', '/<x:nosuchtype>', '/<x!>'])
            entry = lambda: a['app'].add((pat, lambda: None), **kw)
        else:
            class Bad(Middleware):
                def request(self, request):       # does not start with next
                    return None
            entry = lambda: a['app'].add(Route('/bm', lambda: None, middlewares=[Bad()]), **kw)
        self.sh.hit('fail:' + kind)
        self.expect_failure(entry, kind, before, [a['label'], idx])

    # -- the monitor ------------------------------------------------------------------------------------------------
    def check_all(self):
        sh = self.sh
        for a in self.apps:
            got = [r.pattern for r in a['app'].routes]
            want = [e['pattern'] for e in a['table']]
            if got != want:
                sh.violation('C11/routing-table-differs', 'after %r: %s has routes %r, model says %r'
                             % (self.ops[-1], a['label'], got, want), {'ops': self.ops})
                self.dead = True
                return
        for a in self.apps:
            if 'mode' not in a:
                continue
            handler = type(a['app'].error_handler).__name__
            if a['app'].slash_mode != a['mode'] or (handler == 'ContextualErrorHandler') != a['debug']:
                sh.violation('C11/application-options-differ', 'after %r: %s (constructed with %s) has slash_mode %r and error handler %s, '
                             'expected slash_mode %r and %s' % (self.ops[-1], a['label'], a['opts'] or 'defaults', a['app'].slash_mode, handler,
                                                               a['mode'], 'the debug handler' if a['debug'] else 'the plain handler'),
                             {'ops': self.ops})
                self.dead = True
                return
            sh.hit('application-options-compared' + (':defaults' if not a['opts'] else ''))
        for r in self.routes:
            sh.hit('fingerprints-compared')
            if self.route_fp(r['route']) != r['fp']:
                sh.violation('C11/unbound-route-mutated', 'after %r: Route %s changed: %r -> %r'
                             % (self.ops[-1], r['spec']['rid'], r['fp'], self.route_fp(r['route'])), {'ops': self.ops})
                self.dead = True
                return
        for a in self.apps:
            for method, path in self.probe_requests(a):
                # a route whose render argument no factory interprets hands its context through: a server error
                eff = [dict(e, beh=('uncaught' if (e.get('render') == 'noop' and e['beh'] == 'ok') else e['beh'])) for e in a['table']]
                exp = md.dispatch(eff, path, method)
                tr = spies.new_trace()
                ex = probe.request(a['app'], method, path, token='t', trace=tr)
                ran = [e[1] for e in tr['events'] if e[0] == 'ep']
                sh.hit('probes-compared')
                problem = None
                if ex.exc is not None:
                    problem = 'escaped %s' % probe.safe_repr(ex.exc)
                elif sorted(ex.header_all('X-WSGI')) != sorted(a['mws']):
                    problem = 'the answer passed through the WSGI wrappers of %r, this application was constructed with the middlewares %r' % (ex.header_all('X-WSGI'), a['mws'])
                elif ran != exp['executed']:
                    problem = 'endpoints ran %r, model says %r' % (ran, exp['executed'])
                elif ex.status != exp['status']:
                    problem = 'status %s, model says %s' % (ex.status, exp['status'])
                elif exp['by'] and ex.status == 200:
                    entry = a['table'][exp['by_index']]
                    stamps = ex.header_all('X-MW')
                    if ex.header('X-Route') != exp['by']:
                        problem = 'answered by %r, model says %r' % (ex.header('X-Route'), exp['by'])
                    elif sorted(stamps) != sorted(entry['mws']):
                        problem = 'middleware stamps %r, model says %r' % (stamps, entry['mws'])
                    elif entry.get('render') and ex.header('X-Rendered-By') != entry['render']:
                        problem = 'rendered by factory %r, model says %r' % (ex.header('X-Rendered-By'), entry['render'])
                    elif entry.get('render'):
                        sh.hit('renderer-compared')
                if problem:
                    sh.violation('C11/application-behaves-differently', 'after %r: %s %s on %s: %s'
                                 % (self.ops[-1], method, path, a['label'], problem), {'ops': self.ops})
                    self.dead = True
                    return

    def probe_requests(self, a):
        out = []
        pats = [e['pattern'] for e in a['table']]
        self.rng.shuffle(pats)
        for p in pats[:3]:
            elements, _ = um.parse(p, liberal_literals=True)
            path = ''.join('/' + (e[1] if e[0] == 'lit' else 'v') for e in elements) or '/'
            # also methods that no route admits (405: the dispatcher collects the methods of every matching route) and HEAD
            out.append((self.rng.pick(['GET', 'GET', 'POST', 'DELETE', 'PUT', 'HEAD']), path))
            if path != '/' and self.rng.chance(0.5):
                # a non-canonical spelling: served by a route bound in the redirect or rewrite mode (the patterns are
                # leaves: nothing to redirect to), no match for one bound in the strict mode
                out.append((out[-1][0], self.rng.pick([path + '/', path + '//', ('/' + path[1:].replace('/', '//', 1)) if '/' in path[1:] else path + '/'])))
                self.sh.hit('non-canonical-probe')
        out.append(('GET', self.rng.pick(['/a', '/a/b', '/zzz/q/r', '/b'])))
        return out


OPS = ['construct', 'add-route', 'add-route', 'add-tuple', 'rebind-route', 'embed-fresh', 'embed-existing', 'embed-existing',
       'failing-add', 'failing-add']


def run_history(sh, rng, length, script=None):
    w = World(sh, rng)
    w.dead = False
    w.op_construct()
    w.check_all()
    steps = script if script is not None else [rng.pick(OPS) for _ in range(length)]
    done = []
    for op in steps:
        if w.dead:
            break
        if len(w.apps) >= 6 and op in ('construct', 'embed-fresh'):
            op = 'add-route'
        done.append(op)
        try:
            if op == 'construct':
                w.op_construct()
            elif op == 'add-route':
                w.op_add_route('route')
            elif op == 'add-tuple':
                w.op_add_route('tuple')
            elif op == 'rebind-route':
                w.op_rebind_route()
            elif op == 'embed-fresh':
                w.op_embed(True)
            elif op == 'embed-existing':
                w.op_embed(False)
            else:
                w.op_failing_add()
        except Exception as e:
            import traceback
            frames = traceback.extract_tb(e.__traceback__)
            if not any(os.sep + 'clastic' + os.sep in fr.filename for fr in frames):
                raise           # the harness's own problem
            # every operation of a history is well formed (the failing adds catch their own, expected, refusals): clastic
            # refusing one means an earlier operation left something behind
            sh.violation('C11/well-formed-operation-refused', '%s after %r raised %s: %s'
                         % (op, w.ops[-3:], type(e).__name__, str(e)[:200]), {'ops': w.ops})
            w.dead = True
            break
        if not w.dead:
            w.check_all()
    nontrivial = any(o[0] in ('embed', 'failing-add') for o in w.ops)
    sh.case({'ops': w.ops}, nontrivial=nontrivial, klass='history-%d' % min(40, 10 * (len(done) // 10)),
            sample={'ops': w.ops[:14], 'tables': dict((a['label'], [e['pattern'] for e in a['table']]) for a in w.apps)})
    return w, done


def plan(tier, seed):
    return [{'label': 'rand-%d' % i, 'n': 130 if tier == 'quick' else 6300, 'maxlen': 12 if tier == 'quick' else 40,
             'timeout': 7200} for i in range(NSHARDS)]


def run_shard(sh, spec):
    for i in range(spec['n']):
        rng = Rng(spec['seed'], PROPERTY, spec['label'], i)
        sh.notes.setdefault('rng-scheme', 'Rng(seed, "C11", shard label, history index)')
        w, done = run_history(sh, rng, rng.randint(3, spec['maxlen']))
        if w.dead and sh.violations:
            v = sh.violations[-1]
            v['case'] = {'shard': spec['label'], 'index': i, 'seed': spec['seed'], 'maxlen': spec['maxlen'], 'ops': v['case'].get('ops')}


def replay(sh, case, spec):
    rng = Rng(case['seed'], PROPERTY, case['shard'], case['index'])
    w, done = run_history(sh, rng, rng.randint(3, case['maxlen']))
    sh.notes['ops'] = w.ops
    sh.notes['tables'] = dict((a['label'], {'model': [e['pattern'] for e in a['table']],
                                            'real': [r.pattern for r in a['app'].routes]}) for a in w.apps)
