# -*- coding: utf-8 -*-
"""C10 - embedding a sub-application is equivalent to declaring its routes flat.

Monitor: differential.  A random tree of applications is built twice with the real clastic:
nested (SubApplication embedding) and flat (one Application whose Routes carry the prefixed
pattern, the merged middleware list, the merged resources, the effective slash mode and the
resolved renderer - all computed by the harness from its own tree description, never from
clastic's SubApplication).  Every request must produce the same status, body, Location, error
handler stamp and the same trace of middleware/endpoint calls with the same injected values."""
import json

from ..common import Rng
from .. import probe, spies
from ..models import dispatch as md
from ..models import di

PROPERTY = 'C10'
LEVEL = 'exploration'
RULE = ('cases are (application tree, request): trees of depth <=3 with random prefixes (with/without trailing slash, "/"), '
        'per-level middlewares (types shared across levels: unique / non-unique, with provides), resources (names shared '
        'between the outermost application and one inner level), slash modes, error handlers, render factories, '
        'inherit_slashes / rebind_render on and off; requests from a path x method catalogue under every prefix plus paths '
        'outside all prefixes; a case is non-trivial when the request reaches a route of an embedded application; distinct '
        'by hash of (tree, request)')
ASSUMPTIONS = ['a name defined only by two inner levels has no documented precedence and is never generated',
               're-binding of renderers is only requested at embeddings whose embedding application has a render factory',
               'at most one instance of a unique middleware type per list (O5)']
REQUIRED_REACH = ['depth:2', 'depth:3', 'shadow:outer-over-app', 'shadow:outer-over-route', 'optout:slashes', 'optout:none',
                  'rebind:requested', 'redirect-under-prefix', 'error-through-outer-handler', 'reached-embedded-route',
                  'factory:inner', 'factory:outer-fills-in', 'dup-unique-across-levels', 'both-rejected', 'prefix:root-slash', 'prefix:outside-ascii', 'same-middleware-object-on-two-levels:unique', 'same-middleware-object-on-two-levels:nonunique', 'subclassed-middleware-type', 'optional-argument-from-enclosing-level',
                  'error-handler-consumes-resource']
NSHARDS = 16
MODES = ['redirect', 'rewrite', 'strict']
PATTERNS = ['/a', '/a/<x>', '/<x>', '/b/', '/c/<n:int>/', '/<p*>', '/a/b', '/d/<x>/']
BEHS = ['ok', 'ok', 'ok', 'raise_403', 'raise_nb_404', 'return_nb_403', 'uncaught', 'return_404']
REQ_PATHS = ['/a', '/a/b', '/a/5', '/b', '/b/', '/b//', '/c/7/', '/c/7', '/c//7', '/zz', '/', '/d/q/', '/d/q', '/x/y/z', '', '/a/']
METHODS = ['GET', 'GET', 'GET', 'POST', 'HEAD', 'PUT']


# ---- tree generation ------------------------------------------------------------------------------------
class Gen(object):
    def __init__(self, rng):
        self.rng = rng
        self.n_app = self.n_route = self.n_mw = 0
        self.types = []
        self.root_resources = []
        self.routes_made = []

    def mw(self, level_label, own_resources):
        rng = self.rng
        self.n_mw += 1
        label = 'm%d' % self.n_mw
        shareable = [t for t in self.types if not t['provides'] and not t['wants'] and not t.get('base')]   # (every level stays valid on its own)
        if shareable and rng.chance(0.12):
            # the very same middleware object listed at another level as well: one object is one type - kept once when the
            # type is unique, two layers running the same functions when it is not (the flat application lists two
            # instances of the type)
            t = rng.pick(shareable)
            t['aliased'] = True
            self.n_aliases = getattr(self, 'n_aliases', 0) + 1
            spec = {'label': label, 'trace_label': t['label'], 'alias_of': t['label'], 'type': t['type'], 'unique': t['unique'],
                    'provides': [], 'wants': []}
        elif self.types and rng.chance(0.35):
            t = rng.pick(self.types)          # share a type with another level
            spec = {'label': label, 'type': t['type'], 'unique': t['unique'], 'provides': [], 'wants': []}
        else:
            spec = {'label': label, 'type': 'T%d' % self.n_mw, 'unique': rng.chance(0.7),
                    'provides': (['p_' + label] if rng.chance(0.6) else []),
                    'wants': ([rng.pick(own_resources)] if own_resources and rng.chance(0.5) else [])}
            if self.types and rng.chance(0.3):
                # a *subclass* of a type used elsewhere: a different type for the uniqueness rule
                b = rng.pick(self.types)
                spec['base'], spec['base_unique'] = b['type'], b['unique']
            self.types.append(spec)
        return spec

    def node(self, depth, max_depth, is_root=False):
        rng = self.rng
        self.n_app += 1
        label = 'A%d' % self.n_app
        res = {}
        for i in range(rng.randint(0, 2)):
            res['r_%s_%d' % (label, i)] = label
        if is_root:
            for i in range(rng.randint(0, 2)):
                res['shared%d' % i] = label
            self.root_resources = [k for k in res if k.startswith('shared')]
            self.root_none = [rng.pick(self.root_resources)] if self.root_resources and rng.chance(0.3) else []
        elif self.root_resources and rng.chance(0.3):
            nm = self.root_resources.pop()
            res[nm] = label                       # shared between the outermost application and this level only
        node = {'label': label, 'resources': res, 'none_resources': list(self.root_none) if is_root else [], 'slash': rng.pick(MODES + ['redirect']),
                'factory': rng.chance(0.5), 'eh': rng.chance(0.6), 'mws': [], 'children': []}
        used_types = set()
        for _ in range(rng.pick([0, 1, 1, 2])):
            m = self.mw(label, sorted(res))
            if m['type'] in used_types:
                continue
            used_types.add(m['type'])
            node['mws'].append(m)
        n_children = rng.randint(1, 3)
        for i in range(n_children):
            if depth < max_depth and rng.chance(0.55 if depth == 1 else 0.45):
                sub = self.node(depth + 1, max_depth)
                prefix = rng.pick(['/s%d' % self.n_app, '/s%d/' % self.n_app, '/s%d/t' % self.n_app, '/'])
                if rng.chance(0.15):
                    # prefixes outside ASCII: precomposed, decomposed (not NFC), compatibility characters, CJK
                    prefix = rng.pick(['/caf\u00e9%d', '/cafe\u0301%d', '/\u212bng%d/', '/\u65e5\u672c%d', '/\ufb01%d/t']) % self.n_app
                    self.n_text_prefix = getattr(self, 'n_text_prefix', 0) + 1
                node['children'].append({'kind': 'app', 'prefix': prefix, 'inherit': rng.chance(0.7),
                                         'rebind': bool(node['factory'] and rng.chance(0.3)), 'node': sub})
            else:
                node['children'].append(self.route(node))
        return node

    def route(self, node):
        rng = self.rng
        self.n_route += 1
        rid = 'r%d' % self.n_route
        res = {}
        if rng.chance(0.3):
            res['rr_' + rid] = rid
        if self.root_resources and node['label'] != 'A1' and rng.chance(0.25):
            res[self.root_resources.pop()] = rid
        mws, used = [], set(m['type'] for m in node['mws'])
        if rng.chance(0.35):
            m = self.mw(rid, sorted(res))
            if m['type'] not in used:
                mws.append(m)
        avail = sorted(node['resources']) + sorted(res) + [p for m in node['mws'] + mws for p in m['provides']]
        wants = [w for w in avail if rng.chance(0.5)][:3]
        render = rng.pick([None, 'callable', 'arg', 'arg'])
        self.routes_made.append(rid)
        return {'kind': 'route', 'rid': rid, 'opt_wants': [], 'pattern': rng.pick(PATTERNS), 'methods': rng.pick([None, None, ['GET'], ['POST'], ['GET', 'POST']]),
                'beh': rng.pick(BEHS), 'render': render, 'mws': mws, 'resources': res, 'wants': wants,
                'slash': rng.pick(MODES), 'inherit': rng.chance(0.75)}


def all_resource_names(node):
    out = set(node['resources'])
    for c in node['children']:
        if c['kind'] == 'app':
            out |= all_resource_names(c['node'])
        else:
            out |= set(c['resources'])
    return out


def assign_optional_wants(rng, node, names):
    """defaulted endpoint parameters named after resources defined anywhere in the tree (often only by an enclosing
    level) or by nobody: injected when any level on the way offers the name, the default otherwise"""
    for c in node['children']:
        if c['kind'] == 'app':
            assign_optional_wants(rng, c['node'], names)
        elif rng.chance(0.5):
            pool = [n for n in sorted(names) if n not in c['wants']] + ['nobody_has_this']
            c['opt_wants'] = sorted(set(rng.pick(pool) for _ in range(rng.randint(1, 2))))


def gen_tree(rng):
    g = Gen(rng)
    tree = g.node(1, rng.pick([2, 2, 3, 3]), is_root=True)
    assign_optional_wants(rng, tree, all_resource_names(tree))
    if rng.chance(0.06):
        plant_conflict(rng, tree)
    return tree


def plant_conflict(rng, tree):
    """a name offered twice across levels: both constructions must refuse"""
    subs = [c['node'] for c in tree['children'] if c['kind'] == 'app']
    if not subs:
        return

    def unshare(node):
        # every middleware an object of its own here (the planted offer belongs to one level)
        for m in node['mws'] + [m for c in node['children'] if c['kind'] == 'route' for m in c['mws']]:
            for k in ('alias_of', 'aliased', 'trace_label'):
                m.pop(k, None)
        for c in node['children']:
            if c['kind'] == 'app':
                unshare(c['node'])
    unshare(tree)
    sub = rng.pick(subs)
    kind = rng.pick(['provides-provides', 'resource-provides'])
    if kind == 'provides-provides' and tree['mws'] and sub['mws'] and tree['mws'][0]['type'] != sub['mws'][0]['type']:
        tree['mws'][0]['provides'] = ['clash']
        sub['mws'][0]['provides'] = list(sub['mws'][0]['provides']) + ['clash']
    elif sub['mws']:
        tree['resources']['clash'] = tree['label']
        sub['mws'][0]['provides'] = list(sub['mws'][0]['provides']) + ['clash']


def depth_of(node):
    return 1 + max([depth_of(c['node']) for c in node['children'] if c['kind'] == 'app'] + [0])


# ---- runtime pieces shared by both constructions ------------------------------------------------------------
def sym(value, env):
    s = env['by_id'].get(id(value))
    if s is not None:
        return s
    tn = type(value).__name__
    if tn == 'Request' or hasattr(value, 'environ'):
        return 'request'
    return 'other:' + tn


def make_mw_instance(env, spec, share=False):
    from clastic import Middleware
    if share and (spec.get('alias_of') or spec.get('aliased')):
        key = spec.get('alias_of') or spec['label']
        if key not in env.setdefault('inst', {}):
            env['inst'][key] = make_mw_instance(env, dict(spec, label=key), share=False)
        return env['inst'][key]
    cls = env['types'].get(spec['type'])
    if cls is None:
        base = Middleware
        if spec.get('base'):
            base = env['types'].get(spec['base'])
            if base is None:
                base = env['types'][spec['base']] = type(str(spec['base']), (Middleware,), {'unique': spec.get('base_unique', True)})
            env['subclassed'] = True
        cls = env['types'][spec['type']] = type(str(spec['type']), (base,), {'unique': spec['unique']})
    inst = cls()
    inst.provides = tuple(spec['provides'])
    label, provides, wants = spec.get('trace_label') or spec['label'], list(spec['provides']), list(spec['wants'])
    src = ('def request(next%s):\n    return _hook(next, dict(%s))\n'
           % (''.join(', ' + w for w in wants), ', '.join('%s=%s' % (w, w) for w in wants)))

    def _hook(next, args):
        tr = probe.current_trace()
        tr['events'].append(['mw', label, dict((k, sym(v, env)) for k, v in args.items())])
        vals = {}
        for p in provides:
            o = spies.Marker(['prov', label, p])
            env['by_id'][id(o)] = 'provided:%s:%s' % (label, p)
            tr['keep'].append(o)
            vals[p] = o
        try:
            r = next(**vals)
        except Exception as e:
            tr['events'].append(['mw-exc', label, type(e).__name__])
            raise
        tr['events'].append(['mw-ret', label, type(r).__name__, getattr(r, 'status_code', None)])
        return r
    ns = {'_hook': _hook}
    exec(src, ns)
    inst.request = ns['request']
    return inst


def make_endpoint(env, r):
    from clastic import Response, errors
    from ..tables import Boom
    from ..models import urlmatch as um
    names = [e[1] for e in um.parse(r['pattern'])[0] if e[0] == 'bind'] + list(r['wants'])
    opt = [n for n in (r.get('opt_wants') or []) if n not in names]
    rid, beh = r['rid'], r['beh']
    status, breaking, kind = md.BEHAVIOURS[beh]
    has_render = r['render'] is not None
    src = ('def ep_%s(%s):\n    return _run(dict(%s))\n'
           % (rid, ', '.join(names + ['%s=_DEFAULT' % n for n in opt]), ', '.join('%s=%s' % (n, n) for n in names + opt)))
    _DEFAULT = spies.Marker(['default'])
    env['by_id'][id(_DEFAULT)] = 'default'
    env['keep'].append(_DEFAULT)

    def _run(params):
        tr = probe.current_trace()
        shown = dict((k, (v if isinstance(v, (str, int, list, type(None))) else sym(v, env))) for k, v in params.items())
        tr['events'].append(['ep', rid, shown])
        if kind == 'response':
            if has_render:
                return {'rid': rid, 'params': shown}
            return Response('route:%s:%s' % (rid, json.dumps(shown, sort_keys=True)), mimetype='text/plain')
        if kind == 'uncaught':
            raise Boom('uncaught in %s' % rid)
        cls = {403: errors.Forbidden, 404: errors.NotFound, 503: errors.ServiceUnavailable}[status]
        exc = cls(detail='err:%s' % rid, is_breaking=breaking)
        if kind == 'raise':
            raise exc
        return exc
    ns = {'_run': _run, '_DEFAULT': _DEFAULT}
    exec(src, ns)
    return ns['ep_' + rid]


def make_factory(label):
    from clastic import Response

    def factory(render_arg):
        def render(context):
            return Response('rendered-by:%s:%s:%s' % (label, render_arg, json.dumps(context, sort_keys=True, default=repr)),
                            mimetype='text/plain')
        return render
    factory.label = label
    return factory


def explicit_render(rid):
    from clastic import Response

    def render(context):
        return Response('explicit-render:%s:%s' % (rid, json.dumps(context, sort_keys=True, default=repr)), mimetype='text/plain')
    return render


def make_handler(label, env=None, res_name=None):
    """an error handler stamping its label - and, when res_name is given, which object it was handed for that
    resource name (its render_error declares the name)"""
    from clastic.errors import ErrorHandler
    if not label:
        return None

    def _render(self, request, _error, value=None):
        r = ErrorHandler.render_error(self, request, _error)
        r.headers['X-EH'] = label
        if res_name:
            r.headers['X-EH-Res'] = sym(value, env)
        return r
    if res_name:
        ns = {'_render': _render}
        exec('def render_error(self, request, _error, %s):\n    return _render(self, request, _error, %s)\n' % (res_name, res_name), ns)
        fn = ns['render_error']
    else:
        fn = lambda self, request, _error: _render(self, request, _error)
    return type('Stamped', (ErrorHandler,), {'render_error': fn})()


def handler_resource(node):
    """the resource name the root's error handler consumes (a name the root defines, preferably a shared one)"""
    names = sorted(node['resources'])
    shared = [n for n in names if n.startswith('shared')]
    return (shared or names or [None])[0]


def new_env():
    return {'by_id': {}, 'types': {}, 'keep': []}


def res_objects(env, resources, where, none=()):
    out = {}
    for name, owner in resources.items():
        if name in none:
            out[name] = None            # a resource registered with the value None is a definition like any other
            continue
        o = spies.Marker(['res', name, owner])
        env['by_id'][id(o)] = 'resource:%s@%s' % (name, owner)
        env['keep'].append(o)
        out[name] = o
    return out


# ---- nested construction (the thing under test) ------------------------------------------------------------------
def build_nested(env, node):
    from clastic import Application, Route, SubApplication
    app = Application([], resources=res_objects(env, node['resources'], node['label'], node.get('none_resources') or ()),
                      middlewares=[make_mw_instance(env, m, share=True) for m in node['mws']],
                      render_factory=make_factory(node['label']) if node['factory'] else None,
                      error_handler=make_handler(node['label'] if node['eh'] else None, env, handler_resource(node)),
                      slash_mode=node['slash'])
    for c in node['children']:
        if c['kind'] == 'route':
            kw = {}
            if c['methods']:
                kw['methods'] = c['methods']
            render = None
            if c['render'] == 'callable':
                render = explicit_render(c['rid'])
            elif c['render'] == 'arg':
                render = 'tmpl-' + c['rid']
            route = Route(c['pattern'], make_endpoint(env, c), render, middlewares=[make_mw_instance(env, m, share=True) for m in c['mws']],
                          resources=res_objects(env, c['resources'], c['rid']), slash_mode=c['slash'], **kw)
            app.add(route, inherit_slashes=c['inherit'])
        else:
            sub = build_nested(env, c['node'])
            if not c['rebind'] and c['inherit'] and len(c['prefix']) % 2 == 0:
                app.add((c['prefix'], sub))          # the tuple form, with SubApplication's defaults
            else:
                app.add(SubApplication(c['prefix'], sub, rebind_render=c['rebind'], inherit_slashes=c['inherit']))
    return app


# ---- the independent flattening ----------------------------------------------------------------------------------------
def flatten(root):
    """-> list of flat route descriptors, in order"""
    out = []

    def walk(node, chain):
        # chain: list of (node, embedding-info-of-this-node-into-its-parent) outermost first
        for c in node['children']:
            if c['kind'] == 'app':
                walk(c['node'], chain + [(c['node'], c)])
                continue
            levels = [n for n, _ in chain]
            embeds = [e for _, e in chain][1:]            # embeds[i]: how levels[i+1] sits in levels[i]
            prefix = ''.join(e['prefix'].rstrip('/') for e in embeds)
            mws, err = list(c['mws']), None
            for lv in reversed(levels):
                mws, e = di.merge_middlewares([dict(m, reorderable=True) for m in lv['mws']], [dict(m, reorderable=True) for m in mws])
            # effective slash mode: outermost embedding that does not opt out; else the owning app; else the route's own
            mode = None
            for i, e in enumerate(embeds):
                if e['inherit']:
                    mode = levels[i]['slash']
                    break
            if mode is None:
                mode = levels[-1]['slash'] if c['inherit'] else c['slash']
            # renderer
            render = None
            if c['render'] == 'callable':
                render = ('explicit', c['rid'])
            elif c['render'] == 'arg':
                cur = None
                for i in range(len(levels) - 1, -1, -1):
                    lv = levels[i]
                    rebind_here = i < len(embeds) and embeds[i]['rebind']     # embedding of levels[i+1] into levels[i]
                    if lv['factory'] and (cur is None or rebind_here):
                        cur = lv['label']
                render = ('factory', cur, 'tmpl-' + c['rid']) if cur else None
            inner_res = dict(c['resources'])
            owners = {}
            for lv in levels[1:]:
                for k, v in lv['resources'].items():
                    inner_res[k] = v
            if len(levels) == 1:
                pass
            out.append({'rid': c['rid'], 'pattern': prefix + c['pattern'], 'methods': c['methods'], 'beh': c['beh'],
                        'wants': c['wants'], 'opt_wants': c.get('opt_wants') or [],
                        'visible_resources': sorted(set(inner_res) | set(levels[0]['resources']) | set(c['resources'])), 'render': render, 'has_render': c['render'] is not None,
                        'mws': [m for m in mws if not any(m is r or m['label'] == r['label'] for r in levels[0]['mws'])],
                        'resources': inner_res if len(levels) > 1 else dict(c['resources']), 'mode': mode,
                        'orig_pattern': c['pattern'], 'depth': len(levels)})
    walk(root, [(root, None)])
    return out


def build_flat(env, root, flat):
    from clastic import Application, Route
    app = Application([], resources=res_objects(env, root['resources'], root['label'], root.get('none_resources') or ()),
                      middlewares=[make_mw_instance(env, m) for m in root['mws']],
                      error_handler=make_handler(root['label'] if root['eh'] else None, env, handler_resource(root)),
                      slash_mode=root['slash'])
    for f in flat:
        kw = {}
        if f['methods']:
            kw['methods'] = f['methods']
        if f['render'] is None:
            render = None
        elif f['render'][0] == 'explicit':
            render = explicit_render(f['rid'])
        else:
            render = make_factory(f['render'][1])(f['render'][2])
        spec = {'rid': f['rid'], 'pattern': f['orig_pattern'], 'beh': f['beh'], 'wants': f['wants'],
                'opt_wants': f['opt_wants'], 'render': 'x' if f['has_render'] else None}
        ep = make_endpoint(env, spec)
        # resource objects: same symbolic owner labels as in the nested construction
        res = {}
        for name, owner in f['resources'].items():
            o = spies.Marker(['res', name, owner])
            env['by_id'][id(o)] = 'resource:%s@%s' % (name, owner)
            env['keep'].append(o)
            res[name] = o
        route = Route(f['pattern'], ep, render, middlewares=[make_mw_instance(env, m) for m in f['mws']],
                      resources=res, slash_mode=f['mode'], **kw)
        app.add(route, inherit_slashes=False)
    return app


def observe(app, method, path):
    tr = spies.new_trace()
    ex = probe.request(app, method, path, token='t', trace=tr)
    return {'status': ex.status, 'body': ex.body.decode('utf8', 'replace')[:600] if ex.status != 500 else '<500>',
            'location': ex.header('Location'), 'eh': ex.header('X-EH'), 'eh_res': ex.header('X-EH-Res'), 'events': tr['events'],
            'exc': probe.safe_repr(ex.exc) if ex.exc is not None else None,
            'ctype': (ex.header('Content-Type') or '').split(';')[0]}


def absolute_checks(tree, flat, a):
    """what the statement fixes independently of the flat construction (a change that breaks both
    constructions alike is invisible to the differential comparison)"""
    root = tree['label']
    byrid = dict((f['rid'], f) for f in flat)
    # the serving application's resource wins for a name it also defines
    for e in a['events']:
        if e[0] in ('mw', 'ep'):
            for k, v in e[2].items():
                if isinstance(v, str) and v.startswith('resource:') and k in tree['resources'] and not v.endswith('@' + root):
                    return 'resource-precedence', '%s of %s received %s although the serving application defines %s' % (k, e[1], v, k)
    for e in a['events']:
        if e[0] == 'ep' and e[1] in byrid:
            fr = byrid[e[1]]
            for nm in fr['opt_wants']:
                got = e[2].get(nm)
                offered = nm in fr['visible_resources']
                if offered and got == 'default':
                    return 'optional-argument-not-injected', '%s of %s kept its default although a level on the way defines it' % (nm, e[1])
                if not offered and got != 'default':
                    return 'optional-argument-injected-from-nowhere', '%s of %s received %r although no level defines it' % (nm, e[1], got)
    eps = [e[1] for e in a['events'] if e[0] == 'ep']
    if eps:
        f = byrid.get(eps[0])
        first_ep = [i for i, e in enumerate(a['events']) if e[0] == 'ep'][0]
        ran = [e[1] for e in a['events'][:first_ep] if e[0] == 'mw']
        want = [m.get('trace_label') or m['label'] for m in tree['mws']] + [m.get('trace_label') or m['label'] for m in f['mws']]
        if ran != want:
            return 'middleware-order', 'middlewares ran %r before %s, the merged declaration says %r' % (ran, eps[0], want)
        if a['status'] == 200 and len(eps) == 1 and f['render'] is not None and md.BEHAVIOURS[f['beh']][2] == 'response':
            lead = ('explicit-render:%s:' % f['rid']) if f['render'][0] == 'explicit' else 'rendered-by:%s:%s:' % (f['render'][1], f['render'][2])
            if not a['body'].startswith(lead) and a['body']:
                return 'renderer', 'body %r, expected it to start with %r' % (a['body'][:80], lead)
    if a['status'] and a['status'] >= 400 and a['status'] != 500 and tree['eh'] and a['eh'] != root:
        return 'error-handler', 'error response stamped by %r, the serving application is %s' % (a['eh'], root)
    eh_none = handler_resource(tree) in (tree.get('none_resources') or ())      # the serving application defines it as None
    if a.get('eh_res') and not a['eh_res'].endswith('@' + root) and not (eh_none and a['eh_res'] == 'other:NoneType'):
        return 'error-handler-resource', 'the serving application\'s error handler was handed %s for a resource the serving application defines' % a['eh_res']
    return None


def all_prefixes(node, acc=''):
    out = [acc]
    for c in node['children']:
        if c['kind'] == 'app':
            out += all_prefixes(c['node'], acc + c['prefix'].rstrip('/'))
    return out


def check_tree(sh, tree, rng, n_requests, record=True):
    env_n, env_f = new_env(), new_env()
    flat = flatten(tree)
    d = depth_of(tree)
    sh.hit('depth:%d' % d)
    err_n = err_f = None
    try:
        nested = build_nested(env_n, tree)
    except Exception as e:
        err_n = e
    try:
        flatapp = build_flat(env_f, tree, flat)
    except Exception as e:
        err_f = e
    case0 = {'tree': tree}
    if err_n is not None or err_f is not None:
        if (err_n is None) != (err_f is None):
            sh.violation('C10/constructed-only-one-way',
                         'nested construction: %r; flat construction: %r' % (err_n, err_f), dict(case0, method='GET', path='/'))
        else:
            sh.hit('both-rejected')
        sh.case(case0, nontrivial=True, klass='rejected-both-ways')
        return
    # bookkeeping of features
    note_features(sh, tree)
    if env_n.get('subclassed'):
        sh.hit('subclassed-middleware-type')
    prefixes = sorted(set(all_prefixes(tree)))
    reqs = []
    for _ in range(n_requests):
        p = rng.pick(prefixes) + rng.pick(REQ_PATHS)
        if rng.chance(0.08):
            p = rng.pick(['/outside', '/s99/a', '/s1', '/'])
        if not p.startswith('/'):
            p = '/' + p
        reqs.append((rng.pick(METHODS), p))
    if [r.pattern for r in nested.routes] != [f['pattern'] for f in flat]:
        sh.violation('C10/routing-table-differs', 'nested routes %r, flattened declaration %r'
                     % ([r.pattern for r in nested.routes], [f['pattern'] for f in flat]), dict(case0, method='GET', path='/'))
        return
    for method, path in reqs:
        a = observe(nested, method, path)
        b = observe(flatapp, method, path)
        reached = [e[1] for e in a['events'] if e[0] == 'ep']
        deep = any(f['depth'] > 1 for f in flat if f['rid'] in reached)
        if deep:
            sh.hit('reached-embedded-route')
        if a['status'] in (301, 302, 308) and path.count('/') > 1 and deep is False and any(path.startswith(p) and p for p in prefixes):
            sh.hit('redirect-under-prefix')
        if a['status'] in (301, 302, 308) and any(p and path.startswith(p) for p in prefixes):
            sh.hit('redirect-under-prefix')
        if a['eh'] and a['status'] >= 400 and deep:
            sh.hit('error-through-outer-handler')
        if a.get('eh_res') and deep:
            sh.hit('error-handler-consumes-resource')
        for e in a['events']:
            if e[0] == 'ep' and any(v != 'default' and str(v).startswith('resource:') for k, v in e[2].items()
                                    if k in (dict((f['rid'], f) for f in flat).get(e[1], {}).get('opt_wants') or [])):
                sh.hit('optional-argument-from-enclosing-level')
        if record:
            sh.case({'tree': tree, 'method': method, 'path': path}, nontrivial=deep,
                    klass='depth%d:%s' % (d, 'embedded' if deep else 'top'),
                    sample={'method': method, 'path': path, 'nested': a, 'routes': [f['pattern'] for f in flat]})
        why = absolute_checks(tree, flat, a)
        if why:
            sh.violation('C10/' + why[0], '%s %s: %s [nested response %r]' % (method, path, why[1], {k: a[k] for k in ('status', 'body', 'eh', 'events')}),
                         {'tree': tree, 'method': method, 'path': path})
            return
        if a != b:
            keys = [k for k in a if a[k] != b[k]]
            sh.violation('C10/differs:' + keys[0],
                         '%s %s: nested vs flat differ in %s: nested=%r flat=%r [routes %s]'
                         % (method, path, keys, {k: a[k] for k in keys}, {k: b[k] for k in keys},
                            [(f['rid'], f['pattern'], f['mode']) for f in flat]),
                         {'tree': tree, 'method': method, 'path': path})
            return


def note_features(sh, node, depth=1, root=None):
    root = root or node
    for c in node['children']:
        if c['kind'] == 'app':
            sh.hit('optout:slashes' if not c['inherit'] else 'optout:none')
            if c['rebind']:
                sh.hit('rebind:requested')
            if c['prefix'] == '/':
                sh.hit('prefix:root-slash')
            if not c['prefix'].isascii():
                sh.hit('prefix:outside-ascii')
            sub = c['node']
            for m in sub['mws']:
                if m.get('alias_of') or m.get('aliased'):
                    sh.hit('same-middleware-object-on-two-levels:' + ('unique' if m['unique'] else 'nonunique'))
            if any(k in root['resources'] for k in sub['resources']):
                sh.hit('shadow:outer-over-app')
            if sub['factory']:
                sh.hit('factory:inner')
            elif node['factory']:
                sh.hit('factory:outer-fills-in')
            if any(m['type'] in [x['type'] for x in node['mws']] for m in sub['mws']):
                sh.hit('dup-unique-across-levels')
            note_features(sh, sub, depth + 1, root)
        else:
            if node is not root and any(k in root['resources'] for k in c['resources']):
                sh.hit('shadow:outer-over-route')


def plan(tier, seed):
    return [{'label': 'rand-%d' % i, 'n': 200 if tier == 'quick' else 12500, 'timeout': 7200} for i in range(NSHARDS)]


def run_shard(sh, spec):
    rng = Rng(spec['seed'], PROPERTY, spec['label'])
    for _ in range(spec['n']):
        check_tree(sh, gen_tree(rng), rng, 14)


def replay(sh, case, spec):
    class One(object):
        def __init__(self):
            self.calls = 0

        def pick(self, seq):
            return seq[0]

        def chance(self, p):
            return False
    tree = case['tree']
    env_n, env_f = new_env(), new_env()
    flat = flatten(tree)
    sh.notes['flat'] = [(f['rid'], f['pattern'], f['mode'], f['render'], [m['label'] for m in f['mws']], sorted(f['resources'])) for f in flat]
    try:
        nested = build_nested(env_n, tree)
        flatapp = build_flat(env_f, tree, flat)
    except Exception as e:
        sh.notes['construction'] = repr(e)
        try:
            build_nested(new_env(), tree)
            sh.notes['nested'] = 'ok'
        except Exception as e2:
            sh.notes['nested'] = repr(e2)
        try:
            build_flat(new_env(), tree, flat)
            sh.notes['flat-build'] = 'ok'
        except Exception as e3:
            sh.notes['flat-build'] = repr(e3)
        if (sh.notes['nested'] == 'ok') != (sh.notes['flat-build'] == 'ok'):
            sh.violation('C10/constructed-only-one-way', '%s / %s' % (sh.notes['nested'], sh.notes['flat-build']), case)
        return
    a = observe(nested, case['method'], case['path'])
    b = observe(flatapp, case['method'], case['path'])
    sh.notes['nested'] = a
    sh.notes['flat-response'] = b
    if a != b:
        keys = [k for k in a if a[k] != b[k]]
        sh.violation('C10/differs:' + keys[0], 'differ in %s' % keys, case)
