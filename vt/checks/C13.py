# -*- coding: utf-8 -*-
"""C13 - an Application is a conforming WSGI application.

Monitors: (1) the standard library's wsgiref.validate.validator wrapped around the application for
every exchange; (2) the recording probe: start_response exactly once and before any body byte,
bytes chunks only, nothing for HEAD, close() present and called; (3) every file opened by
clastic.static during a request (recorded through a module-local open wrapper) must be closed once
the response iterable was closed; (4) recording WSGI wrappers contributed by middlewares must nest
in the stated order; (5) a RerouteWSGI target must receive the very environ object, every original
entry intact, and its status / headers / body must be relayed verbatim."""
import gc
import os
import re
import io
import shutil
import tempfile
import traceback
from wsgiref import validate

from ..common import Rng
from .. import probe, spies

PROPERTY = 'C13'
LEVEL = 'exploration'
RULE = ('cases are (response kind, method, header set) over a scenario application producing every kind of response the framework '
        'can (plain, streamed, rendered, JSON, static file via StaticApplication and StaticFileRoute with and without a server '
        'file_wrapper, 304, slash redirect, 404/405/500 incl. debug pages, meta pages, gzip- and cache-processed), plus random '
        'stacks of 0-4 recording wsgi_wrapper middlewares over application level / embedded level / route level, plus RerouteWSGI '
        '(raised or as endpoint) towards recording WSGI callables; non-trivial when the validator saw a complete exchange; '
        'distinct by hash of the case')
ASSUMPTIONS = ['input-side assertions of the validator (how Werkzeug reads wsgi.input) are not attributed to clastic',
               'for non-unique middleware types the number of wrapper applications is not fixed by the statement (O5); order is checked']
REQUIRED_REACH = ['wrapper-lists-with-a-repeated-type', 'schedules:first-requests', 'accept-charset-sent', 'validated:plain', 'validated:stream', 'validated:rendered', 'validated:static', 'validated:staticroute',
                  'validated:304', 'validated:redirect', 'validated:404', 'validated:405', 'validated:500', 'validated:debug-500',
                  'validated:debug-404', 'validated:meta', 'validated:gzip', 'validated:cache', 'validated:head', 'validated:post',
                  'files-opened', 'files-closed-after-close', 'wrapper-stacks:depth>=2', 'wrapper-stacks:embedded',
                  'wrapper-stacks:no-routes', 'wrapper-stacks:siblings', 'wrapper-stacks:siblings-share-unique-type', 'reroute:raised', 'reroute:endpoint', 'reroute:relayed-verbatim', 'closed-before-first-chunk', 'reroute:mode-rewrite', 'reroute:lazy-target', 'reroute:target-uses-write', 'wrapper-stacks:subclass-type']
NSHARDS = 8


# ---- scenario ------------------------------------------------------------------------------------------
class Scenario(object):
    def __init__(self):
        self.tmp = tempfile.mkdtemp(prefix='verif-c13-')
        self.opened = []
        with open(os.path.join(self.tmp, 'a.txt'), 'w') as f:
            f.write('hello static\n' * 50)
        with open(os.path.join(self.tmp, 'b.bin'), 'wb') as f:
            f.write(bytes(range(256)) * 64)
        with open(os.path.join(self.tmp, 'empty'), 'wb') as f:
            pass
        os.mkdir(os.path.join(self.tmp, 'sub'))
        with open(os.path.join(self.tmp, 'sub', 'c.html'), 'w') as f:
            f.write('<html><body>c</body></html>')
        self.install_open_recorder()
        self.app = self.build(False)
        self.debug_app = self.build(True)

    def install_open_recorder(self):
        import builtins
        import clastic.static as st
        opened = self.opened

        def recording_open(*a, **kw):
            f = builtins.open(*a, **kw)
            opened.append(f)
            return f
        st.open = recording_open
        self._static_module = st

    def cleanup(self):
        try:
            del self._static_module.open
        except Exception:
            pass
        for f in self.opened:
            try:
                f.close()
            except Exception:
                pass
        shutil.rmtree(self.tmp, ignore_errors=True)

    def build(self, debug):
        from clastic import (Application, Route, Response, StaticApplication, StaticFileRoute, MetaApplication,
                             render_basic, render_json)
        from clastic.errors import Forbidden
        from clastic.middleware import GzipMiddleware, HTTPCacheMiddleware

        def gen():
            for i in range(5):
                yield ('chunk %d\n' % i).encode()

        def boom():
            raise RuntimeError('scenario failure <b>')

        def err():
            raise Forbidden('nope')

        def form(request):
            return Response('form:%s' % sorted(request.form.items()), mimetype='text/plain')

        def custom_error(which, request):
            from clastic.errors import HTTPException, BadRequest
            code, message = {'ascii': (499, 'Client closed request'), 'cjk': (520, '\u672a\u77e5\u306e\u30a8\u30e9\u30fc'),
                             'lines': (599, 'upstream said:\nline 1\r\nline 2'), 'latin': (420, 'caf\xe9 ferm\xe9'),
                             'std-cjk': (404, '\u898b\u3064\u304b\u308a\u307e\u305b\u3093'), 'ctl': (598, 'bell\x07tab\there')}[which]
            err = HTTPException(detail='detail of ' + which + ' \u2603\nsecond line', code=code, message=message)
            if request.args.get('how') == 'return':
                return err
            raise err

        def cookie():
            r = Response('cookie')
            r.set_cookie('k', 'v; x')
            r.set_cookie('k2', 'é')
            return r
        big = ('compressible ' * 400)
        routes = [
            Route('/plain', lambda: Response('hello', mimetype='text/plain')),
            Route('/stream', lambda: Response(gen(), mimetype='text/plain')),
            Route('/rendered', lambda: {'a': 1, 'b': [1, 2]}, render_basic),
            Route('/json', lambda: {'a': 1}, render_json),
            ('/static/', StaticApplication(self.tmp)),
            StaticFileRoute('/file', os.path.join(self.tmp, 'a.txt')),
            StaticFileRoute('/binfile', os.path.join(self.tmp, 'b.bin')),
            Route('/branch/', lambda: Response('branch')),
            Route('/bitem/<x>/', lambda x: Response('item')), Route('/btree/<p+>/', lambda p: Response('tree')),
            Route('/only-get', lambda: Response('x'), methods=['GET']),
            Route('/boom', boom), Route('/err', err), Route('/form', form), Route('/cookie', cookie),
            Route('/empty', lambda: Response('')),
            # short tuples with numbers in them are data like any other sequence
            Route('/pair/<which>', lambda which: {'a': ('apples', 3), 'b': (3, 4), 'c': ('balance', -12), 'd': ('a', 7, None),
                                                  'e': ('total', 2, [('x', 'y')]), 'f': (7, 200), 'g': ('gone', 404)}[which], render_basic),
            # contexts that are not sized containers: one-shot iterators over anything (numbers, records, text, bytes), numbers,
            # None, arbitrary objects - whatever the renderer makes of them, the body is bytes
            Route('/iter/<which>', lambda which: {'ints': (i for i in range(5)), 'mapped': map(float, [1, 2]), 'records': iter([{'id': 1}, {'id': 2}]),
                                                  'texts': (t for t in ['a', 'b']), 'bytes': iter([b'x', b'y']), 'empty': iter(()), 'mixed': iter(['t', 1, None, b'b']),
                                                  'range': iter(range(3)), 'float': 2.5, 'none': None, 'object': object(), 'zip': zip('ab', [1, 2]),
                                                  'enumerate': enumerate(['x'])}[which], render_basic),
            # results that are callable without being responses: a forgotten pair of parentheses, a class instead of an instance
            Route('/retfunc', lambda: boom), Route('/retclass', lambda: Response), Route('/retlambda', lambda: (lambda environ, start_response: [b'x'])),
            # HTTP errors with codes outside any registry and messages/details that are not header material
            Route('/custom/<which>', custom_error),
            Route('/bytes', lambda: Response(b'\x00\xff\x10', mimetype='application/octet-stream')),
            Route('/html', lambda: Response('<html><body>é</body></html>', mimetype='text/html')),
            ('/meta/', MetaApplication()),
            Route('/gz/big', lambda: Response(big, mimetype='text/plain'), middlewares=[GzipMiddleware()]),
            Route('/gz/small', lambda: Response('x', mimetype='text/plain'), middlewares=[GzipMiddleware()]),
            Route('/gz/rendered', lambda: {'text': big}, render_basic, middlewares=[GzipMiddleware()]),
            Route('/cache/plain', lambda: Response('cached body', mimetype='text/plain'),
                  middlewares=[HTTPCacheMiddleware(max_age=30)]),
            Route('/cache/gz', lambda: Response(big, mimetype='text/plain'),
                  middlewares=[HTTPCacheMiddleware(max_age=30), GzipMiddleware()]),
            # files served from below the built-in response middlewares
            ('/mwstatic/', Application([('/', StaticApplication(self.tmp)), StaticFileRoute('/one', os.path.join(self.tmp, 'a.txt'))],
                                       middlewares=[GzipMiddleware(), HTTPCacheMiddleware(max_age=30)])),
        ]
        return Application(routes, debug=debug)


REQUESTS = [
    # (kind, method, path, query, headers, body, use debug app)
    ('plain', 'GET', '/plain', '', {}, b'', False), ('plain', 'OPTIONS', '/plain', '', {}, b'', False),
    ('stream', 'GET', '/stream', '', {}, b'', False),
    ('rendered', 'GET', '/rendered', '', {}, b'', False), ('rendered', 'GET', '/rendered', 'format=html', {}, b'', False),
    ('rendered', 'GET', '/rendered', '', {'Accept': 'text/html'}, b'', False), ('rendered', 'GET', '/json', '', {}, b'', False),
    ('rendered', 'GET', '/iter/ints', '', {}, b'', False), ('rendered', 'GET', '/iter/mapped', '', {}, b'', False), ('rendered', 'GET', '/iter/records', '', {'Accept': 'text/html'}, b'', False),
    ('rendered', 'GET', '/iter/texts', '', {}, b'', False), ('rendered', 'POST', '/iter/bytes', '', {}, b'', False), ('rendered', 'GET', '/iter/empty', '', {}, b'', False),
    ('rendered', 'GET', '/iter/mixed', 'format=json', {}, b'', False), ('rendered', 'GET', '/iter/range', '', {}, b'', False), ('rendered', 'GET', '/iter/float', '', {}, b'', False),
    ('rendered', 'GET', '/iter/none', '', {}, b'', False), ('rendered', 'GET', '/iter/object', '', {}, b'', False), ('rendered', 'HEAD', '/iter/ints', '', {}, b'', False),
    ('rendered', 'GET', '/iter/zip', '', {}, b'', False), ('rendered', 'GET', '/iter/enumerate', '', {'Accept': 'application/json'}, b'', False),
    ('static', 'GET', '/static/a.txt', '', {}, b'', False), ('static', 'GET', '/static/b.bin', '', {}, b'', False),
    ('static', 'GET', '/static/empty', '', {}, b'', False), ('static', 'GET', '/static/sub/c.html', '', {}, b'', False),
    ('static', 'GET', '/static/a.txt', '', {'X-File-Wrapper': '1'}, b'', False),
    ('static', 'GET', '/mwstatic/a.txt', '', {'Accept-Encoding': 'gzip'}, b'', False),
    ('static', 'GET', '/mwstatic/b.bin', '', {'Accept-Encoding': 'gzip, deflate'}, b'', False),
    ('static', 'GET', '/mwstatic/sub/c.html', '', {'Accept-Encoding': '*'}, b'', False), ('static', 'GET', '/mwstatic/a.txt', '', {}, b'', False),
    ('static', 'GET', '/mwstatic/empty', '', {'Accept-Encoding': 'gzip'}, b'', False),
    ('staticroute', 'GET', '/mwstatic/one', '', {'Accept-Encoding': 'gzip', 'X-File-Wrapper': '1'}, b'', False),
    ('304', 'GET', '/mwstatic/a.txt', '', {'If-Modified-Since': 'Fri, 01 Jan 2100 00:00:00 GMT', 'Accept-Encoding': 'gzip'}, b'', False),
    ('staticroute', 'GET', '/file', '', {}, b'', False), ('staticroute', 'GET', '/binfile', '', {'X-File-Wrapper': '1'}, b'', False),
    ('304', 'GET', '/static/a.txt', '', {'If-Modified-Since': 'Fri, 01 Jan 2100 00:00:00 GMT'}, b'', False),
    ('304', 'GET', '/file', '', {'If-Modified-Since': 'Fri, 01 Jan 2100 00:00:00 GMT'}, b'', False),
    ('redirect', 'GET', '/branch', 'q=1', {}, b'', False), ('redirect', 'POST', '/branch', '', {}, b'x=1', False),
    # slash redirects whose path carries octets that must never reach a header unescaped
    ('redirect', 'GET', '/bitem/a\x01b', '', {}, b'', False), ('redirect', 'GET', '/btree/x/y\x02z', 'k=v', {}, b'', False),
    ('redirect', 'OPTIONS', '/bitem/q\x08r', '', {}, b'', False), ('redirect', 'GET', '/bitem/a\x7fb\x1f', '', {}, b'', False),
    ('redirect', 'GET', '/bitem/caf\xe9 \u2603', '', {}, b'', False), ('redirect', 'GET', '/bitem/a\rb', '', {}, b'', False),
    ('404', 'GET', '/nothing', '', {}, b'', False), ('404', 'GET', '/static/missing.txt', '', {}, b'', False),
    ('404', 'GET', '/static/../a.txt', '', {}, b'', False), ('404', 'GET', '/nothing', '', {'Accept': 'text/html'}, b'', False),
    ('404', 'GET', '/nothing', '', {'Accept': 'application/json'}, b'', False),
    ('405', 'POST', '/only-get', '', {}, b'', False), ('405', 'DELETE', '/only-get', '', {'Accept': 'application/xml'}, b'', False),
    ('500', 'GET', '/boom', '', {}, b'', False), ('500', 'GET', '/boom', '', {'Accept': 'text/html'}, b'', False),
    ('500', 'GET', '/err', '', {}, b'', False),
    ('500', 'GET', '/retfunc', '', {}, b'', False), ('500', 'GET', '/retclass', '', {'Accept': 'text/html'}, b'', False),
    ('500', 'POST', '/retlambda', '', {}, b'', False), ('debug-500', 'GET', '/retfunc', '', {'Accept': 'text/html'}, b'', True),
    ('debug-500', 'GET', '/boom', '', {'Accept': 'text/html'}, b'', True), ('debug-500', 'GET', '/boom', 'a=<b>', {}, b'', True),
    ('debug-404', 'GET', '/nothing/<x>', '', {'Accept': 'text/html'}, b'', True),
    ('meta', 'GET', '/meta/', '', {}, b'', False), ('meta', 'GET', '/meta/json/', '', {}, b'', False),
    ('meta', 'GET', '/meta/clastic_assets/common.css', '', {}, b'', False), ('meta', 'GET', '/meta', '', {}, b'', False),
    ('gzip', 'GET', '/gz/big', '', {'Accept-Encoding': 'gzip'}, b'', False), ('gzip', 'GET', '/gz/big', '', {}, b'', False),
    ('gzip', 'GET', '/gz/small', '', {'Accept-Encoding': 'gzip, deflate'}, b'', False),
    ('gzip', 'GET', '/gz/rendered', '', {'Accept-Encoding': 'gzip'}, b'', False),
    ('cache', 'GET', '/cache/plain', '', {}, b'', False), ('cache', 'GET', '/cache/gz', '', {'Accept-Encoding': 'gzip'}, b'', False),
    ('post', 'POST', '/form', '', {'Content-Type': 'application/x-www-form-urlencoded'}, b'a=1&b=%C3%A9', False),
    ('post', 'POST', '/plain', '', {'Content-Type': 'text/plain'}, b'ignored body', False),
    ('plain', 'GET', '/cookie', '', {}, b'', False), ('plain', 'GET', '/empty', '', {}, b'', False),
    ('rendered', 'GET', '/pair/a', '', {}, b'', False), ('rendered', 'GET', '/pair/b', '', {'Accept': 'text/html'}, b'', False),
    ('rendered', 'GET', '/pair/c', 'format=json', {}, b'', False), ('rendered', 'GET', '/pair/d', '', {}, b'', False),
    ('rendered', 'POST', '/pair/e', '', {}, b'', False), ('rendered', 'GET', '/pair/f', '', {}, b'', False), ('rendered', 'GET', '/pair/g', '', {}, b'', False),
    ('custom-error', 'GET', '/custom/ascii', '', {}, b'', False), ('custom-error', 'GET', '/custom/cjk', '', {}, b'', False),
    ('custom-error', 'GET', '/custom/lines', 'how=return', {}, b'', False), ('custom-error', 'GET', '/custom/latin', '', {'Accept': 'text/html'}, b'', False),
    ('custom-error', 'GET', '/custom/std-cjk', '', {'Accept': 'application/json'}, b'', False), ('custom-error', 'POST', '/custom/ctl', 'how=return', {}, b'', False),
    ('custom-error', 'GET', '/custom/lines', '', {'Accept': 'application/xml'}, b'', True), ('custom-error', 'GET', '/custom/cjk', 'how=return', {}, b'', True),
    ('plain', 'GET', '/bytes', '', {}, b'', False), ('plain', 'GET', '/html', '', {}, b'', False),
]


def status_line_problem(status):
    """PEP 3333: a native string '<3 digits><space><reason>' that can go on the wire: ISO-8859-1 text without control
    characters (a line break in it ends the status line and starts a header)"""
    if type(status) is not str:
        return 'status is %r, not a str' % (status,)
    if not re.match(r'^[1-5][0-9][0-9] ', status):
        return 'status %r does not start with a three-digit code and a space' % status
    try:
        status.encode('latin-1')
    except UnicodeError:
        return 'status %r cannot be encoded as ISO-8859-1' % status
    if re.search(r'[\x00-\x1f\x7f]', status):
        return 'status %r contains control characters' % status
    return None


def headers_problem(hdrs):
    if type(hdrs) is not list:
        return 'headers are %s, not a list' % type(hdrs).__name__
    for item in hdrs:
        if type(item) is not tuple or len(item) != 2 or type(item[0]) is not str or type(item[1]) is not str:
            return 'header %r is not a pair of str' % (item,)
        name, value = item
        try:
            name.encode('latin-1'), value.encode('latin-1')
        except UnicodeError:
            return 'header %r cannot be encoded as ISO-8859-1' % (item,)
        if not re.match(r'^[!#$%&\'*+.^_`|~0-9A-Za-z-]+$', name) or re.search(r'[\x00-\x08\x0a-\x1f\x7f]', value):
            return 'header %r is not valid on the wire' % (item,)
    return None


def is_input_side(exc):
    """did the assertion come from the validator's wsgi.input / wsgi.errors wrappers?"""
    tb = traceback.extract_tb(exc.__traceback__)
    for fr in tb:
        if fr.filename.endswith('validate.py') and fr.name in ('read', 'readline', 'readlines', '__iter__', 'flush', 'write',
                                                               'writelines', 'check_environ', 'check_input', 'check_errors'):
            return True
    return False


def validated_exchange(sc, app, method, path, query, headers, body):
    hdrs = dict(headers)
    extra = {}
    if hdrs.pop('X-File-Wrapper', None):
        from wsgiref.util import FileWrapper
        extra['wsgi.file_wrapper'] = FileWrapper
    env = probe.make_environ(method, path, query, hdrs, body, extra=extra)
    n_open_before = len(sc.opened)
    ex = probe.call_wsgi(validate.validator(app), env, catch=(Exception,))
    files = sc.opened[n_open_before:]
    return ex, files


def judge_exchange(sh, sc, kind, method, path, query, headers, body, debug, record=True):
    app = sc.debug_app if debug else sc.app
    case = {'kind': kind, 'method': method, 'path': path, 'query': query, 'headers': headers,
            'body': body.decode('latin-1'), 'debug': debug}
    brief = '%s %s?%s %r' % (method, path, query, headers)
    try:
        validate.check_environ(probe.make_environ(method, path, query, {k: v for k, v in headers.items() if k != 'X-File-Wrapper'}, body))
    except AssertionError as e:
        raise RuntimeError('harness built an invalid environ: %s' % e)
    ex, files = validated_exchange(sc, app, method, path, query, headers, body)
    if record:
        sh.case(case, nontrivial=ex.exc is None, klass=kind + ':' + method, sample=dict(case, status=ex.status))
    if isinstance(ex.exc, AssertionError):
        if is_input_side(ex.exc):
            sh.hit('validator-input-side-complaint')
        else:
            sh.violation('C13/validator-assertion', '%s: wsgiref.validate: %s' % (brief, str(ex.exc)[:400]), case)
            return
    elif ex.exc is not None:
        sh.violation('C13/exception-escaped', '%s: %s escaped' % (brief, probe.safe_repr(ex.exc)[:300]), case)
        return
    else:
        sh.hit('validated:' + kind)
        if method == 'HEAD':
            sh.hit('validated:head')
        if method == 'POST':
            sh.hit('validated:post')
    # explicit protocol bookkeeping (independent of the validator)
    if len(ex.sr_calls) != 1:
        sh.violation('C13/start-response-count', '%s: start_response called %d times' % (brief, len(ex.sr_calls)), case)
        return
    status, hdrs = ex.sr_calls[0][0], ex.sr_calls[0][1]
    problem = status_line_problem(status) or headers_problem(hdrs)
    if problem:
        sh.violation('C13/invalid-status-or-header', '%s: %s' % (brief, problem), case)
        return
    sh.hit('status-line-and-headers-checked')
    if ex.sr_after_body:
        sh.violation('C13/start-response-after-body', '%s: body bytes before start_response' % brief, case)
        return
    if ex.nonbytes_chunk:
        sh.violation('C13/non-bytes-chunk', '%s: body chunk of type %s' % (brief, ex.nonbytes_chunk), case)
        return
    if method == 'HEAD' and ex.body:
        sh.violation('C13/body-for-head', '%s: %d body bytes for HEAD' % (brief, len(ex.body)), case)
        return
    if files:
        sh.hit('files-opened', len(files))
        gc.collect()
        still = [f.name for f in files if not f.closed]
        if still:
            sh.violation('C13/file-left-open', '%s: after close() of the response iterable %r still open (close() existed: %s, called: %s)'
                         % (brief, still, ex.had_close, ex.closed), case)
            for f in files:
                f.close()
            return
        sh.hit('files-closed-after-close', len(files))
    # a server may close the iterable without ever asking for a chunk (client gone, HEAD): the file must be released all the same
    if files and method in ('GET', 'HEAD'):
        hdrs2 = dict(headers)
        extra2 = {}
        if hdrs2.pop('X-File-Wrapper', None):
            from wsgiref.util import FileWrapper
            extra2['wsgi.file_wrapper'] = FileWrapper
        env2 = probe.make_environ(method, path, query, hdrs2, body, extra=extra2)
        n0 = len(sc.opened)
        try:
            it = app(env2, lambda status, headers, exc_info=None: (lambda data: None))
            if hasattr(it, 'close'):
                it.close()
            del it
        except Exception as e:
            sh.violation('C13/exception-escaped', '%s (closed before the first chunk): %s escaped' % (brief, probe.safe_repr(e)[:200]), case)
            return
        gc.collect()
        still = [f.name for f in sc.opened[n0:] if not f.closed]
        if still:
            sh.violation('C13/file-left-open', '%s: the iterable was closed before its first chunk was asked for, %r is still open' % (brief, still), case)
            for f in sc.opened[n0:]:
                f.close()
            return
        sh.hit('closed-before-first-chunk')
    # the same request as HEAD must carry no body
    if method == 'GET' and kind not in ('304',):
        ex2, files2 = validated_exchange(sc, app, 'HEAD', path, query, headers, b'')
        if isinstance(ex2.exc, AssertionError) and not is_input_side(ex2.exc):
            sh.violation('C13/validator-assertion', 'HEAD %s: wsgiref.validate: %s' % (path, str(ex2.exc)[:400]), dict(case, method='HEAD'))
        elif ex2.exc is None:
            sh.hit('validated:head')
            if ex2.body:
                sh.violation('C13/body-for-head', 'HEAD %s: %d body bytes' % (path, len(ex2.body)), dict(case, method='HEAD'))
            gc.collect()
            still = [f.name for f in files2 if not f.closed]
            if still:
                sh.violation('C13/file-left-open', 'HEAD %s: %r still open after close()' % (path, still), dict(case, method='HEAD'))
                for f in files2:
                    f.close()


# ---- wrapper order ----------------------------------------------------------------------------------------------
def make_wrapper_mw(label, type_name, unique, types, base=None):
    from clastic import Middleware
    cls = types.get(type_name)
    if cls is None:
        parent = Middleware
        if base:
            parent = types.get(base) or types.setdefault(base, type(str(base), (Middleware,), {'unique': True}))
        cls = types[type_name] = type(str(type_name), (parent,), {'unique': unique})
    inst = cls()
    inst.label = label

    def wsgi_wrapper(inner):
        def wrapped(environ, start_response):
            environ.setdefault('verif.wrappers', []).append(label)
            return inner(environ, start_response)
        return wrapped
    inst.wsgi_wrapper = wsgi_wrapper
    return inst


def wrapper_case(rng):
    n = rng.randint(0, 4)
    types_n = max(1, n)
    outer, inner, route_level = [], [], []
    specs = []
    for i in range(n):
        spec = {'label': 'w%d' % i, 'type': 'W%d' % (rng.randrange(types_n) if rng.chance(0.3) else i), 'unique': rng.chance(0.8)}
        specs.append(spec)
    if len(specs) >= 2 and rng.chance(0.35):
        # a type deriving from an earlier one: a different type, whose own wrapper must be applied as well
        i = rng.randrange(1, len(specs))
        if specs[i]['type'] != specs[0]['type'] and specs[i]['type'] == 'W%d' % i:
            specs[i]['base'] = specs[0]['type']
    shape = rng.pick(['flat', 'flat', 'embedded', 'embedded', 'no-routes', 'route-level', 'siblings', 'siblings'])
    place = {}
    for s in specs:
        place[s['label']] = rng.pick({'flat': ['outer'], 'no-routes': ['outer'], 'embedded': ['outer', 'inner'],
                                      'route-level': ['outer', 'route'], 'siblings': ['outer', 'inner', 'inner2', 'inner2', 'inner']}[shape])
    if shape == 'siblings' and len(specs) >= 2 and rng.chance(0.6):
        # the same unique type carried by an own instance in each sibling, none at the embedding level
        specs[-1]['type'] = specs[-2]['type']
        specs[-1]['unique'] = specs[-2]['unique'] = True
        place[specs[-2]['label']], place[specs[-1]['label']] = 'inner', 'inner2'
    return {'shape': shape, 'specs': specs, 'place': place, 'add_later': rng.chance(0.3)}


def dedupe_ok(seq):
    """at most one instance of a unique type per list (O5)"""
    seen = set()
    out = []
    for s in seq:
        if s['unique'] and s['type'] in seen:
            continue
        seen.add(s['type'])
        out.append(s)
    return out


def judge_wrappers(sh, case):
    from clastic import Application, Route, Response
    types = {}
    specs = case['specs']
    outer = dedupe_ok([s for s in specs if case['place'][s['label']] == 'outer'])
    inner = dedupe_ok([s for s in specs if case['place'][s['label']] == 'inner'])
    inner2 = dedupe_ok([s for s in specs if case['place'][s['label']] == 'inner2'])
    routel = dedupe_ok([s for s in specs if case['place'][s['label']] == 'route'])
    mk = lambda lst: [make_wrapper_mw(s['label'], s['type'], s['unique'], types, s.get('base')) for s in lst]
    if any(s.get('base') for s in specs):
        sh.hit('wrapper-stacks:subclass-type')
    ep = lambda: Response('ok')
    shape = case['shape']
    try:
        if shape == 'no-routes':
            app = Application([], middlewares=mk(outer))
            if case['add_later']:
                app.add(Route('/x', ep))
            path = '/x'
        elif shape == 'flat':
            app = Application([Route('/x', ep), Route('/y', ep)], middlewares=mk(outer))
            path = '/x'
        elif shape == 'route-level':
            app = Application([Route('/x', ep, middlewares=mk(routel)), Route('/y', ep)], middlewares=mk(outer))
            path = '/x'
        elif shape == 'siblings':
            sub1 = Application([Route('/x', ep)], middlewares=mk(inner))
            sub2 = Application([Route('/x', ep)], middlewares=mk(inner2))
            app = Application([('/sub', sub1), ('/sub2', sub2), Route('/y', ep)], middlewares=mk(outer))
            path = case.get('path') or '/sub/x'
        else:
            sub = Application([Route('/x', ep)], middlewares=mk(inner))
            app = Application([('/sub', sub), Route('/y', ep)], middlewares=mk(outer))
            path = '/sub/x'
    except Exception as e:
        sh.violation('C13/wrapper-stack-construction', 'building %r raised %r' % (case, e), {'wrappers': case})
        return
    env = probe.make_environ('GET', path)
    ex = probe.call_wsgi(validate.validator(app), env, catch=(Exception,))
    got = env.get('verif.wrappers', [])
    if shape == 'siblings':
        return judge_siblings(sh, case, specs, outer, inner, inner2, got, ex)
    # expectation: application list order; embedding application's before the embedded one's; a unique type once
    seen_types, expect = set(), []
    for s in outer + inner:          # route-level wrappers are outside the statement: position not judged
        if s['unique'] and s['type'] in seen_types:
            continue
        seen_types.add(s['type'])
        expect.append(s['label'])
    judged = [g for g in got if g in set(x['label'] for x in outer + inner)]
    nonunique_types = set(s['type'] for s in specs if not s['unique'])
    sh.case({'wrappers': case}, nontrivial=len(expect) >= 1, klass='wrappers:' + shape,
            sample={'case': case, 'observed': got, 'expected': expect})
    if len(expect) >= 2:
        sh.hit('wrapper-stacks:depth>=2')
    if shape == 'embedded' and inner:
        sh.hit('wrapper-stacks:embedded')
    if shape == 'no-routes' and outer:
        sh.hit('wrapper-stacks:no-routes')
    if ex.exc is not None:
        sh.violation('C13/wrapper-stack-exchange', '%r: %s' % (case, probe.safe_repr(ex.exc)), {'wrappers': case})
        return
    # for non-unique types the number of applications is open (O5): compare with duplicates of such types folded
    def fold(seq):
        label_type = dict((s['label'], s['type']) for s in specs)
        out, seen = [], set()
        for l in seq:
            t = label_type[l]
            if t in nonunique_types:
                if t in seen:
                    continue
                seen.add(t)
                out.append('type:' + t)
            else:
                out.append(l)
        return out
    if fold(judged) != fold(expect):
        key = 'C13/wrappers-not-applied' if not judged and expect else 'C13/wrapper-order'
        if shape == 'no-routes' and not judged and expect:
            key = 'C13/wrappers-not-applied:application-without-routes'
        sh.violation(key, 'wrappers ran in order %r, expected %r (shape %s, outer %r, inner %r)'
                     % (got, expect, shape, [s['label'] for s in outer], [s['label'] for s in inner]), {'wrappers': case})


def judge_siblings(sh, case, specs, outer, inner, inner2, got, ex):
    """siblings: no order is stated between the two embedded applications, so the expectation is a set of
    constraints: every unique type applied exactly once, each list's own order kept, the embedding application's
    wrappers outside all embedded ones"""
    label_type = dict((s['label'], s['type']) for s in specs)
    unique_types = set(s['type'] for s in specs if s['unique'])
    sh.case({'wrappers': case}, nontrivial=bool(inner and inner2), klass='wrappers:siblings',
            sample={'case': case, 'observed': got})
    if inner and inner2:
        sh.hit('wrapper-stacks:siblings')
        if set(s['type'] for s in inner if s['unique']) & set(s['type'] for s in inner2 if s['unique']):
            sh.hit('wrapper-stacks:siblings-share-unique-type')
    if ex.exc is not None:
        sh.violation('C13/wrapper-stack-exchange', '%r: %s' % (case, probe.safe_repr(ex.exc)), {'wrappers': case})
        return
    problems = []
    for t in unique_types:
        n = sum(1 for g in got if label_type[g] == t)
        present = any(s['type'] == t for s in outer + inner + inner2)
        if present and n != 1:
            problems.append('unique type %s applied %d times' % (t, n))
    for name, lst in (('outer', outer), ('first embedded', inner), ('second embedded', inner2)):
        want = [s['label'] for s in lst]
        seen = [g for g in got if g in want]
        # labels dropped by the uniqueness rule may be missing; the remaining ones keep the list's order
        if seen != [w for w in want if w in seen]:
            problems.append('%s application order %r, observed %r' % (name, want, seen))
    outer_labels = [s['label'] for s in outer]
    if outer_labels and got:
        last_outer = max([i for i, g in enumerate(got) if g in outer_labels] or [-1])
        first_inner = min([i for i, g in enumerate(got) if g not in outer_labels] or [len(got)])
        if last_outer > first_inner:
            problems.append('an embedded application\'s wrapper runs outside the embedding one\'s')
    if problems:
        sh.violation('C13/wrapper-order:siblings', 'wrappers ran %r (outer %r, embedded %r and %r): %s'
                     % (got, outer_labels, [s['label'] for s in inner], [s['label'] for s in inner2], '; '.join(problems)),
                     {'wrappers': case})


# ---- RerouteWSGI ----------------------------------------------------------------------------------------------------
def judge_reroute(sh, rng):
    from clastic import Application, Route, RerouteWSGI, Response, Middleware
    how = rng.pick(['raised', 'endpoint', 'raised-in-middleware', 'raised-in-with-block', 'endpoint-below-with-block',
                    'endpoint-below-try-finally', 'endpoint-with-render', 'endpoint-with-render'])
    status = rng.pick(['200 OK', '201 Created', '404 Not Found', '418 I am a teapot', '302 Found', '500 Boom'])
    hdrs = [('Content-Type', rng.pick(['text/plain', 'application/x-verif; v=1'])), ('X-Target', 'yes'),
            ('X-Dup', 'a'), ('X-Dup', 'b')]
    if status.startswith('302'):
        hdrs.append(('Location', 'http://elsewhere.test/'))
    chunks = [b'first:', b'', bytes(rng.getrandbits(8) for _ in range(rng.randint(0, 40))), b':last']
    seen = {}

    lazy = rng.chance(0.4)

    def eager_target(environ, start_response):
        seen['environ'] = environ
        seen['snapshot'] = dict(environ)
        start_response(status, list(hdrs))
        return iter(list(chunks))

    def lazy_target(environ, start_response):
        # a generator: nothing runs - start_response included - before the server asks for the first chunk
        seen['environ'] = environ
        seen['snapshot'] = dict(environ)
        start_response(status, list(hdrs))
        for c in chunks:
            yield c
    def writing_target(environ, start_response):
        # PEP 3333's legacy interface: the body (or part of it) goes through the write() callable start_response returns
        seen['environ'] = environ
        seen['snapshot'] = dict(environ)
        write = start_response(status, list(hdrs))
        write(chunks[0])
        write(chunks[1])
        return iter(list(chunks[2:]))
    target = lazy_target if lazy else eager_target
    if not lazy and rng.chance(0.3):
        target = writing_target
        sh.hit('reroute:target-uses-write')
    if lazy:
        sh.hit('reroute:lazy-target')
    # WSGI is positional: a target is any callable taking two arguments - other parameter names, a partial, an object
    spelled = rng.pick(['plain', 'plain', 'other-names', 'partial', 'object', 'varargs'])
    if spelled != 'plain':
        import functools
        inner_target = target
        if spelled == 'other-names':
            target = lambda env, sr: inner_target(env, sr)
        elif spelled == 'partial':
            target = functools.partial(lambda tag, env, sr: inner_target(env, sr), 'tag')
        elif spelled == 'varargs':
            target = lambda *a: inner_target(*a)
        else:
            class Target(object):
                def __call__(self, env, sr):
                    return inner_target(env, sr)
            target = Target()
        sh.hit('reroute:target-spelled-differently')
    mode = rng.pick(['redirect', 'redirect', 'rewrite', 'rewrite', 'strict'])
    # application options that have nothing to do with rerouting (the debug flag picks the error pages)
    appkw = rng.pick([{}, {}, {'debug': True}, {'debug': False}])
    if appkw.get('debug'):
        sh.hit('reroute:application-in-debug-mode')
    branch = rng.chance(0.5)
    pattern = '/go/<x*>/' if branch else '/go/<x*>'
    if how == 'raised':
        def ep():
            raise RerouteWSGI(target)
        app = Application([Route(pattern, lambda x: ep())], slash_mode=mode, **appkw)
    elif how == 'endpoint':
        app = Application([Route(pattern, RerouteWSGI(target))], slash_mode=mode, **appkw)
    elif how == 'endpoint-with-render':
        # the route has a render side too (a callable, or an argument the application's render factory interprets, also
        # through an embedding): a reroute is not a context - the target answers, nothing is rendered
        from clastic import render_basic, render_json
        rk = rng.pick(['basic', 'json', 'lambda', 'factory', 'embedded-factory'])
        sh.hit('reroute:route-with-render:' + rk)
        if rk in ('factory', 'embedded-factory'):
            def factory(arg):
                return lambda context: Response('rendered %s %r' % (arg, context))
            inner = Application([Route(pattern, RerouteWSGI(target), 'page.html')], render_factory=factory, slash_mode=mode, **appkw)
            app = inner if rk == 'factory' else Application([('/', inner)], render_factory=factory, slash_mode=mode, **appkw)
        else:
            rn = {'basic': render_basic, 'json': render_json, 'lambda': (lambda context: Response('rendered %r' % (context,)))}[rk]
            app = Application([Route(pattern, RerouteWSGI(target), rn)], slash_mode=mode, **appkw)
    elif how == 'raised-in-with-block':
        # application code commonly runs inside context managers (transactions, timers, locks): the exception that
        # carries the reroute passes through their __exit__ on its way out
        import contextlib

        @contextlib.contextmanager
        def timed():
            try:
                yield
            finally:
                seen['timed'] = True

        def ep():
            with timed():
                raise RerouteWSGI(target)
        app = Application([Route(pattern, lambda x: ep())], slash_mode=mode, **appkw)
    elif how in ('endpoint-below-with-block', 'endpoint-below-try-finally'):
        import contextlib

        @contextlib.contextmanager
        def span():
            yield

        class W(Middleware):
            def request(self, next):
                if how == 'endpoint-below-with-block':
                    with span():
                        return next()
                try:
                    return next()
                finally:
                    seen['finally'] = True
        app = Application([Route(pattern, RerouteWSGI(target))], middlewares=[W()], slash_mode=mode, **appkw)
    else:
        class M(Middleware):
            def request(self, next):
                raise RerouteWSGI(target)
        app = Application([Route(pattern, lambda x: Response('never'))], middlewares=[M()], slash_mode=mode, **appkw)
    method = rng.pick(['GET', 'POST', 'HEAD', 'PUT'])
    # canonical and non-canonical spellings; a slash redirect (redirect mode, branch, non-canonical) and a strict miss
    # legitimately never reach the target
    path = rng.pick(['/go/a/b', '/go/a/b/', '/go//a/b', '/go/a//b//']) if mode != 'strict' else ('/go/a/b/' if branch else '/go/a/b')
    canonical = path == ('/go/a/b/' if branch else '/go/a/b')
    reaches = canonical or mode == 'rewrite' or (mode == 'redirect' and not branch)
    env = probe.make_environ(method, path, 'k=v', {'X-Orig': 'o', 'Cookie': 'c=1', 'Proxy': 'http://proxy.test:3128', 'X-Forwarded-For': '10.0.0.1',
                                                    'Authorization': 'Basic dTpw', 'Transfer-Encoding': 'identity', 'X-Empty': ''}, b'payload' if method in ('POST', 'PUT') else b'')
    env['verif.marker'] = marker = object()
    original = dict(env)
    ex = probe.call_wsgi(app, env)
    case = {'reroute': how, 'status': status, 'method': method, 'mode': mode, 'pattern': pattern, 'path': path}
    sh.hit('reroute:mode-' + mode)
    if not reaches:
        sh.hit('reroute:not-reached-by-design')
        return
    sh.case(dict(case, chunks=len(chunks), n=rng.randrange(1 << 30)), nontrivial=True, klass='reroute:' + how,
            sample=dict(case, got_status=ex.status_line))
    sh.hit('reroute:' + ('raised' if how != 'endpoint' else 'endpoint'))
    if ex.exc is not None:
        sh.violation('C13/reroute-exception', '%r: %s escaped' % (case, probe.safe_repr(ex.exc)), case)
        return
    if 'environ' not in seen:
        sh.violation('C13/reroute-target-not-called', '%r: the target WSGI application was never called' % case, case)
        return
    if seen['environ'] is not env:
        sh.violation('C13/reroute-environ-copied', '%r: the target received a different environ object' % case, case)
        return
    changed = [k for k, v in original.items() if k not in seen['snapshot'] or seen['snapshot'][k] is not v]
    if changed:
        sh.violation('C13/reroute-environ-entries-changed', '%r: original environ entries changed or missing: %r' % (case, changed), case)
        return
    if ex.status_line != status or ex.headers != hdrs or ex.chunks != chunks:
        sh.violation('C13/reroute-not-verbatim', '%r: relayed %r %r %r, the target produced %r %r %r'
                     % (case, ex.status_line, ex.headers, ex.chunks, status, hdrs, chunks), case)
        return
    sh.hit('reroute:relayed-verbatim')


def plan(tier, seed):
    return [{'label': 'scn-%d' % i, 'index': i, 'rounds': 3 if tier == 'quick' else 40,
             'wrappers': 120 if tier == 'quick' else 6000, 'reroutes': 60 if tier == 'quick' else 3000, 'timeout': 7200}
            for i in range(NSHARDS)] + [{'label': 'first-requests', 'kind': 'first-requests', 'timeout': 3600}]


def first_requests(sh, spec):
    """The first requests of an application's life arrive together (a threaded server right after start-up): every
    single-preemption schedule of two requests on an application that has never served one.  Each answer - and every later one -
    passes each middleware's WSGI wrapper exactly once, outermost first, and start_response is called once."""
    import os
    from clastic import Application, Route, Response, Middleware
    from .. import sched
    from ..common import REPO
    roots = (os.path.join(REPO, 'clastic') + os.sep, '<sinter generated')

    def wrapper_mw(label):
        class W(Middleware):
            def request(self, next):
                return next()

            def wsgi_wrapper(self, wsgi_app):
                def wrapped(environ, start_response):
                    environ.setdefault('vt.wrappers', []).append(label)
                    return wsgi_app(environ, start_response)
                return wrapped
        W.__name__ = 'W_' + label
        return W()

    def build():
        return Application([Route('/a', lambda: Response('a')), Route('/b/<x>', lambda x: Response('b' + x), middlewares=[wrapper_mw('route')])],
                           middlewares=[wrapper_mw('outer'), wrapper_mw('inner')])

    def job(app, path):
        def run():
            env = probe.make_environ('GET', path)
            ex = probe.call_wsgi(app, env)
            return ex, list(env.get('vt.wrappers') or [])
        return run
    want = {p: job(build(), p)() for p in ('/a', '/b/1')}
    want = {p: (ex.status, ex.body, w) for p, (ex, w) in want.items()}
    n_points = sched.count_points(job(build(), '/a'), roots)
    for k in range(1, n_points + 1):
        app = build()
        s = sched.Scheduler(2, sched.preempt_once(k), roots)
        res = s.run([job(app, '/a'), job(app, '/b/1')])
        case = {'first_requests': True, 'k': k}
        sh.case(case, nontrivial=bool(s.switches), klass='first-requests')
        if s.broken:
            sh.hit('watchdog-fired')
            continue
        sh.hit('schedules:first-requests')
        later = job(app, '/a')()
        for (tag, val), p, who in zip(list(res) + [('ok', later)], ('/a', '/b/1', '/a'), ('first', 'second', 'a later one')):
            got = (val[0].status, val[0].body, val[1]) if tag == 'ok' and val[0].exc is None and len(val[0].sr_calls) == 1 else \
                (tag, probe.safe_repr(val[0].exc if tag == 'ok' else val)[:200], val[0].sr_calls if tag == 'ok' else None)
            if got != want[p]:
                sh.violation('C13/first-requests-interfere', 'the first two requests of an application overlap (preemption after %d steps): '
                             'the %s request (%s) got %r, on an application of its own it gets %r' % (k, who, p, got, want[p]), case)
                return


def wrapper_types_once(sh):
    """One application-level list that names a unique WSGI-wrapping type more than once: the type is applied once (its first
    instance), the others keep their list order."""
    from clastic import Application, Route, Response, Middleware

    def mk(name):
        class W(Middleware):
            def __init__(self, label):
                self.label = label

            def request(self, next):
                return next()

            def wsgi_wrapper(self, wsgi_app):
                def wrapped(environ, start_response):
                    environ.setdefault('vt.wrappers', []).append(self.label)
                    return wsgi_app(environ, start_response)
                return wrapped
        W.__name__ = name
        return W
    O, I, X = mk('Outer'), mk('Inner'), mk('Extra')
    for labels, mws in ((['o', 'i'], [O('o'), I('i')]), (['o', 'i'], [O('o'), I('i'), O('o-again')]), (['a'], [O('a'), O('b')]),
                        (['i', 'o'], [I('i'), O('o'), I('i2'), O('o2')]), (['x', 'o', 'i'], [X('x'), O('o'), O('o2'), I('i'), X('x2')])):
        case = {'wrapper_types_once': [m.label for m in mws]}
        try:
            app = Application([Route('/', lambda: Response('x'))], middlewares=mws)
        except Exception as e:
            sh.violation('C13/wrapper-stack-refused', 'an application whose list is %r was refused: %r' % (case['wrapper_types_once'], e), case)
            return
        env = probe.make_environ('GET', '/')
        ex = probe.call_wsgi(app, env)
        got = list(env.get('vt.wrappers') or [])
        sh.case(case, nontrivial=True, klass='wrapper-types-once')
        sh.hit('wrapper-lists-with-a-repeated-type')
        if ex.exc is not None or ex.status != 200 or got != labels:
            sh.violation('C13/wrapper-order-or-count', 'application-level list %r: the request passed the wrappers %r (status %s), expected %r - '
                         'each unique type once, in list order' % (case['wrapper_types_once'], got, ex.status, labels), case)
            return


def run_shard(sh, spec):
    if spec.get('kind') == 'first-requests':
        wrapper_types_once(sh)
        return first_requests(sh, spec)
    rng = Rng(spec['seed'], PROPERTY, spec['label'])
    sc = Scenario()
    try:
        for rnd in range(spec['rounds']):
            reqs = list(REQUESTS)
            rng.shuffle(reqs)
            for kind, method, path, query, headers, body, debug in reqs:
                h = dict(headers)
                if rnd or spec['index']:
                    # vary ambient headers
                    if rng.chance(0.3):
                        h.setdefault('Accept', rng.pick(['text/html', 'application/json', '*/*', 'application/xml']))
                    if rng.chance(0.3):
                        h.setdefault('Accept-Encoding', rng.pick(['gzip', 'identity', 'gzip;q=0', 'br, gzip']))
                    if rng.chance(0.1):
                        h.setdefault('If-None-Match', '"abc"')
                    # what a client says about charsets, languages and itself - known names, unknown ones, junk
                    if rng.chance(0.3):
                        h.setdefault('Accept-Charset', rng.pick(['utf-8', 'iso-8859-1', 'unicode-1-1', 'x-user-defined', 'utf-8;q=0.5, x-sjis',
                                                                 '*', 'rot13', 'base64, utf-8;q=0.1', 'undefined', ';;,', 'utf-16', 'ascii']))
                        sh.hit('accept-charset-sent')
                    if rng.chance(0.15):
                        h.setdefault('Accept-Language', rng.pick(['fr-CH, fr;q=0.9, en;q=0.8', 'zz', 'x-klingon', '*;q=0', ',,']))
                    if rng.chance(0.1):
                        h.setdefault('User-Agent', rng.pick(['caf\xe9-agent/1.0', 'Mozilla/5.0 (\xe6\x97\xa5)', '']))
                    if rng.chance(0.1) and method in ('POST', 'PUT'):
                        h.setdefault('Content-Type', rng.pick(['text/plain; charset=x-unknown', 'application/x-www-form-urlencoded; charset=utf-16',
                                                               'multipart/form-data', 'application/json; charset=']))
                judge_exchange(sh, sc, kind, method, path, query, h, body, debug)
        for _ in range(spec['wrappers']):
            judge_wrappers(sh, wrapper_case(rng))
        for _ in range(spec['reroutes']):
            judge_reroute(sh, rng)
    finally:
        sc.cleanup()


def replay(sh, case, spec):
    if case.get('first_requests'):
        return first_requests(sh, spec)
    if 'wrapper_types_once' in case:
        return wrapper_types_once(sh)
    if 'wrappers' in case:
        judge_wrappers(sh, case['wrappers'])
        return
    if 'reroute' in case:
        rng = Rng(0, 'replay-reroute')
        for _ in range(200):
            judge_reroute(sh, rng)
        return
    sc = Scenario()
    try:
        judge_exchange(sh, sc, case['kind'], case['method'], case['path'], case['query'], case['headers'],
                       case['body'].encode('latin-1'), case['debug'], record=False)
    finally:
        sc.cleanup()
