# -*- coding: utf-8 -*-
"""C03 - middlewares nest in the documented M-shaped order.

Monitor: the enter/leave/raise trace emitted by harness-supplied middleware, endpoint and render
functions, compared event by event with the reference onion (models/di.py: merge rule +
interpreter) under one scripted deviation per case."""
import copy
from ..common import Rng
from .. import gen_di
from ._di_common import drive, replay_cfg

PROPERTY = 'C03'
LEVEL = 'exploration'
RULE = ('cases are accepted middleware stacks (0-5 middlewares over application level, one or two embedded '
        'application levels and route level; unique / non-unique / non-reorderable types shared across levels) '
        'crossed with one scripted deviation at one function (raise before/after next, short-circuit with a '
        'Response or a context, swallow an inner exception, replace the result; endpoint returning a Response or '
        'raising; render raising); a case is non-trivial when the stack has at least one middleware function; '
        'distinct by hash of configuration + deviation')
ASSUMPTIONS = ['at most one instance of a unique middleware type inside any single list (O5)',
               'exceptions are plain Exception subclasses raised by the spies; the application re-raises uncaught errors']
REQUIRED_REACH = ['dup-unique-within-an-inner-list', 'beh:render-layer-returns-non-response', 'same-instance-across-levels', 'same-instance-across-levels:unique', 'same-instance-across-levels:unique-nonreorderable', 'same-class-name-across-levels', 'constructed', 'requests-on-accepted', 'beh:raise_before', 'beh:raise_after', 'beh:short', 'beh:swallow',
                  'beh:replace', 'beh:short_ctx', 'beh:ep-resp', 'beh:ep-raise', 'beh:rn-raise', 'levels:2', 'levels:3',
                  'dup-unique-across-levels', 'nonreorderable-dup', 'phase-seen:request', 'phase-seen:endpoint',
                  'phase-seen:render', 'sibling-routes-with-own-middlewares', 'flavour:base', 'flavour:http', 'raises-http-exception', 'raises-builtin-exception', 'subclass-across-levels', 'embedded-keeping-own-slash-mode', 'schedules:two-requests-on-one-route']
NSHARDS = 16
MW_BEH = ['raise_before', 'raise_after', 'short', 'short_ctx', 'swallow', 'replace']


def all_funcs(cfg):
    out = []
    for l in cfg['levels']:
        for m in l['mws']:
            out += [(ph, m[ph]['fid']) for ph in ('request', 'endpoint', 'render') if m.get(ph)]
    for m in cfg['route']['mws']:
        out += [(ph, m[ph]['fid']) for ph in ('request', 'endpoint', 'render') if m.get(ph)]
    return out


def retype(rng, cfg, sh):
    """share middleware types across levels (never within one list: O5)"""
    lists = [l['mws'] for l in cfg['levels']] + [cfg['route']['mws']]
    flat = [(i, m) for i, lst in enumerate(lists) for m in lst]
    if len(flat) < 2 or not rng.chance(0.6):
        return
    (i1, m1), (i2, m2) = rng.sample(flat, 2)
    if i1 == i2:
        # two instances of one unique type inside a single list: the outermost application's own list keeps both (O5,
        # pinned by the suite) - any inner list (an embedded application's, the route's) is de-duplicated like the rest
        if i1 == 0:
            return
        first, second = (m1, m2) if lists[i1].index(m1) < lists[i1].index(m2) else (m2, m1)
        second['type'] = first['type']
        for a in ('provides', 'endpoint_provides', 'render_provides'):
            second[a] = []
        sh.hit('dup-unique-within-an-inner-list')
        return
    mode = rng.pick(['unique', 'unique', 'nonunique', 'nonreorderable', 'subclass', 'subclass', 'same-instance', 'same-class-name'])
    if mode == 'same-class-name':
        # two unrelated types that happen to carry the same class name: different types, both stay
        m2['clsname'] = m1['type']
        sh.hit('same-class-name-across-levels')
        return
    if mode == 'same-instance':
        # the very same object of a non-unique type included at two levels: two layers running the same functions
        keep = dict(m2)
        m2.clear()
        m2.update(copy.deepcopy(m1))
        m2['alias_of'] = m1['mid']
        m2['mid'] = keep['mid']
        # ... or of a unique type: one object is certainly one type, kept once at its outermost position (refused when
        # the type is not reorderable)
        how = rng.pick(['nonunique', 'unique', 'unique', 'unique-nonreorderable'])
        for m in (m1, m2):
            m['unique'] = how != 'nonunique'
            if how == 'unique-nonreorderable':
                m['reorderable'] = False
            for a in ('provides', 'endpoint_provides', 'render_provides'):
                m[a] = []
        sh.hit('same-instance-across-levels')
        sh.hit('same-instance-across-levels:' + how)
        return
    if mode == 'subclass':
        # one type derives from the other: different types, both stay (whichever level carries the subclass)
        sub, base = (m1, m2) if rng.chance(0.5) else (m2, m1)
        sub['base'], sub['base_unique'] = base['type'], base.get('unique', True)
        sh.hit('subclass-across-levels')
        return
    m2['type'] = m1['type']
    # provides of duplicates must stay conflict-free: the copy that may be dropped provides nothing
    for a in ('provides', 'endpoint_provides', 'render_provides'):
        m2[a] = []
    if mode == 'nonunique':
        m1['unique'] = m2['unique'] = False
        sh.hit('dup-nonunique-across-levels')
    elif mode == 'nonreorderable':
        m1['reorderable'] = m2['reorderable'] = False
        sh.hit('nonreorderable-dup')
    else:
        sh.hit('dup-unique-across-levels')


def make_case(rng, sh):
    nlev = rng.pick([1, 1, 2, 2, 3])
    cfg = gen_di.gen_config(rng, {'deviate': 0.0, 'posonly': False, 'levels': nlev, 'nonunique': False, 'unique_dup': False,   # retype() below shares types
                                  'n_mws': rng.pick([1, 2, 3, 3, 4, 5])})
    if cfg['route'].get('render') is None:
        cfg['route']['render'] = {'fid': 'rn', 'form': 'function', 'params': [['context', 'req']]}
    retype(rng, cfg, sh)
    funcs = all_funcs(cfg)
    beh = {}
    r = rng.random()
    if funcs and r < 0.62:
        ph, fid = rng.pick(funcs)
        b = rng.pick(MW_BEH)
        if b == 'short_ctx' and ph == 'request':
            b = 'short'
        beh[fid] = b
        sh.hit('beh:' + b)
        if b == 'short_ctx' and ph == 'render':
            sh.hit('beh:render-layer-returns-non-response')
        if b == 'swallow':    # something inside must raise for the swallow to matter
            beh['ep'] = 'raise' if rng.chance(0.6) else beh.get('ep', 'ctx')
    elif r < 0.72:
        beh['ep'] = 'resp'
        sh.hit('beh:ep-resp')
    elif r < 0.82:
        beh['ep'] = 'raise'
        sh.hit('beh:ep-raise')
    elif r < 0.87:
        beh['rn'] = 'raise'
        sh.hit('beh:rn-raise')
    elif r < 0.93:
        # the render function hands back something that is not a Response: every enclosing layer sees exactly that
        beh['rn'] = 'ctx'
        sh.hit('beh:render-layer-returns-non-response')
    else:
        sh.hit('beh:none')
    if funcs and rng.chance(0.15):     # a second, independent deviation
        ph, fid = rng.pick(funcs)
        beh.setdefault(fid, rng.pick(['raise_after', 'replace', 'swallow']))
    cfg['beh'] = beh
    # what kind of object a spy returns as "a Response": a werkzeug Response, a bare BaseResponse, or a returned HTTP error
    cfg['exc_flavour'] = {}
    for fid, b in beh.items():
        if b in ('raise_before', 'raise_after', 'raise') and rng.chance(0.6):
            # an HTTPException (an exception *and* a response), clastic's or werkzeug's - or one of the built-in exception types
            cfg['exc_flavour'][fid] = rng.pick(['http', 'http', 'werkzeug', 'builtin:TypeError', 'builtin:TypeError', 'builtin:KeyError',
                                                'builtin:AttributeError', 'builtin:ValueError', 'builtin:NameError', 'builtin:RuntimeError',
                                                'builtin:LookupError', 'builtin:AssertionError', 'builtin:NotImplementedError'])
            sh.hit('raises-http-exception' if not cfg['exc_flavour'][fid].startswith('builtin:') else 'raises-builtin-exception')
    cfg['resp_flavour'] = {}
    for fid, b in beh.items():
        if b in ('short', 'swallow', 'replace', 'resp') and rng.chance(0.45):
            cfg['resp_flavour'][fid] = rng.pick(['base', 'http'])
            sh.hit('flavour:' + cfg['resp_flavour'][fid])
    # what a non-Response result is: the render side runs for anything that is not a Response - bytes (binary or text),
    # text, containers, empty containers - exactly as for an opaque object
    if rng.chance(0.5):
        cfg['ctx_flavour'] = rng.pick(['bytes-binary', 'bytes-latin1', 'bytes-text', 'bytearray', 'str', 'dict', 'list', 'empty-dict', 'exception-object', 'exception-object', 'exception-class'])
        sh.hit('non-response-result:' + cfg['ctx_flavour'])
    sh.hit('levels:%d' % nlev)
    for ph, _ in funcs:
        sh.hit('phase-seen:' + ph)
    return cfg, bool(funcs)


def plan(tier, seed):
    return [{'label': 'rand-%d' % i, 'n': 700 if tier == 'quick' else 32000,
             'timeout': 1200 if tier == 'quick' else 7200} for i in range(NSHARDS)] + \
           [{'label': 'interleaved-' + k, 'kind': 'interleaved', 'kind_of_route': k, 'timeout': 1200} for k in ('rendered', 'response')]


def interleaved(sh, spec):
    """Two requests on one route whose servings overlap (every single-preemption schedule: A runs k clastic lines, B runs to
    completion, A resumes): each request's onion is its own - every layer sees its own request's values going in and exactly
    what the layer below it returned coming out."""
    import os
    import json
    from clastic import Application, Route, Response, Middleware
    from .. import sched, probe
    from ..common import REPO
    roots = (os.path.join(REPO, 'clastic') + os.sep, '<sinter generated')
    kind = spec.get('kind_of_route', 'rendered')

    def log(request, what, value):
        request.environ.setdefault('vt.trace', []).append([what, value])

    class Outer(Middleware):
        provides = ('outer_tag',)

        def request(self, next, request):
            tok = request.args.get('tok')
            log(request, 'outer.request>', tok)
            r = next(outer_tag='outer:' + tok)
            log(request, 'outer.request<', r.headers.get('X-Tok') if hasattr(r, 'headers') else repr(r))
            return r

        def endpoint(self, next, request, outer_tag):
            log(request, 'outer.endpoint>', outer_tag)
            r = next()
            log(request, 'outer.endpoint<', r.get('tok') if isinstance(r, dict) else getattr(r, 'headers', {}).get('X-Tok'))
            return r

        def render(self, next, request, context):
            log(request, 'outer.render>', context.get('tok'))
            r = next()
            log(request, 'outer.render<', r.headers.get('X-Tok'))
            return r

    class Inner(Middleware):
        def request(self, next, request, outer_tag):
            log(request, 'inner.request>', outer_tag)
            r = next()
            log(request, 'inner.request<', r.headers.get('X-Tok') if hasattr(r, 'headers') else repr(r))
            return r

    def ep(request, x, outer_tag):
        tok = request.args.get('tok')
        log(request, 'endpoint', [x, outer_tag])
        if kind == 'response':
            return Response('direct:' + tok, headers={'X-Tok': tok})
        return {'tok': tok, 'x': x}

    def rn(request, context):
        log(request, 'render', context.get('tok'))
        return Response(json.dumps(context, sort_keys=True), headers={'X-Tok': context['tok']})

    def build():
        return Application([Route('/r/<x>', ep, rn, middlewares=[Inner()])], middlewares=[Outer()])

    def job(app, tok):
        def run():
            env = probe.make_environ('GET', '/r/x-' + tok, 'tok=' + tok)
            ex = probe.call_wsgi(app, env)
            return ex, env.get('vt.trace')
        return run

    def alone(tok):
        ex, trace = job(build(), tok)()
        return ex.status, ex.body, trace
    want = {t: alone(t) for t in ('A', 'B')}
    n_points = sched.count_points(job(build(), 'A'), roots)
    sh.notes['interleaved:' + kind] = 'yield points of one request: %d' % n_points
    app = build()
    for k in range(1, n_points + 1):
        for fresh in (False, True):
            a = build() if fresh else app
            s = sched.Scheduler(2, sched.preempt_once(k), roots)
            res = s.run([job(a, 'A'), job(a, 'B')])
            case = {'interleaved': kind, 'k': k, 'fresh': fresh}
            sh.case(case, nontrivial=bool(s.switches), klass='interleaved:' + kind)
            if s.broken:
                sh.hit('watchdog-fired')
                continue
            sh.hit('schedules:two-requests-on-one-route')
            for (tag, val), tok in zip(res, ('A', 'B')):
                got = (val[0].status, val[0].body, val[1]) if tag == 'ok' and val[0].exc is None else (tag, probe.safe_repr(val[0].exc if tag == 'ok' else val)[:200], None)
                if got != want[tok]:
                    sh.violation('C03/onion-of-another-request', 'two overlapping requests on one route (%s; preemption after %d steps%s): request %s '
                                 'went through %r, served alone it goes through %r' % (kind, k, ', fresh application' if fresh else '', tok, got, want[tok]), case)
                    return


def run_shard(sh, spec):
    if spec.get('kind') == 'interleaved':
        interleaved(sh, spec)
        return
    rng = Rng(spec['seed'], PROPERTY, spec['label'])
    for i in range(spec['n']):
        cfg, nt = make_case(rng, sh)
        drive(sh, PROPERTY, cfg, 'stack', requests=('hit', '404'), shape_only=True, nontrivial=nt)


def replay(sh, case, spec):
    if 'interleaved' in case:
        interleaved(sh, {'kind_of_route': case['interleaved']})
        return
    replay_cfg(sh, PROPERTY, case)
