# -*- coding: utf-8 -*-
"""C18 - the meta application never reveals secrets and always renders.

Monitor: bodies of GET <prefix>/ and <prefix>/json/ of a MetaApplication embedded in generated
host applications.  Every resource value carries its own unique sentinel; sentinels of
secret-named resources and of cookie signing keys must not occur anywhere in either body, secret
resources must be listed with the redaction marker, the others must be visible, status is 200."""
import re
import json
import html
import functools

from ..common import Rng
from .. import probe

PROPERTY = 'C18'
LEVEL = 'exploration'
RULE = ('cases are host applications: 0-8 resources (names with "secret" as prefix / infix / suffix / whole name, and without; values '
        'str, bytes, numbers, nested containers, objects whose repr embeds the sentinel, objects whose repr raises), 1-8 routes '
        '(plain function, lambda, bound method, callable object, static/class method, decorated function, RerouteWSGI, static file route, '
        'static application, embedded application, string render arguments with a render factory), 0-3 middlewares (incl. '
        'SignedCookieMiddleware with a sentinel key, stats, gzip, custom ones with hostile reprs); meta mounted under a random prefix, '
        'directly or two levels deep; HTML and JSON views; non-trivial when the host has a secret-named resource or a cookie key; '
        'distinct by hash of the host description')
ASSUMPTIONS = ['"secret" is matched as a lower-case substring of the resource name, as the statement spells it',
               'visible-control expectations are dropped for a host that contains a resource whose repr raises (the whole section is then reported as failed inline)']
REQUIRED_REACH = ['schedules:meta-view-while-serving', 'fault-arguments:none', 'middleware:raising-repr', 'middleware:surrogate-repr', 'secret-resources-rendered', 'redaction-marker-seen:html', 'redaction-marker-seen:json', 'visible-control-seen:html',
                  'visible-control-seen:json', 'json-view-parsed', 'cookie-key-hosts', 'depth:2', 'name:prefix', 'name:infix', 'name:suffix',
                  'value:bytes', 'value:rawbytes', 'value:number', 'value:nested', 'value:object-repr', 'value:long-nospace', 'value:long-words', 'value:url-like', 'value:tuple', 'value:surrogate-str', 'value:nonascii', 'value:mixed-keys', 'value:self-ref', 'value:equal-twin', 'value:bad-repr', 'inline-section-failure-seen', 'host-context-processor', 'route:render-arg-object',
                  'fault-injected', 'same-meta-application-asked-through-two-applications']
NSHARDS = 16
SECRET_NAMES = {'prefix': ['secret_key', 'secret-token', 'secretX', 'secret_' + 'x' * 60],
                'infix': ['db_secret_url', 'mysecrets', 'x_secret_y', 'very_long_configuration_option_name_secret_value_for_production'],
                'suffix': ['api_secret', 'cookiesecret', 'the.secret', 'payment_gateway_production_signing_secret', 'k' * 70 + 'secret'],
                'whole': ['secret']}
PLAIN_NAMES = ['db_url', 'name', 'config', 'SECRET_upper', 'sekret', 'token', 'n', 'cache', 'items', 'secre', 'ecret']


class ReprCarrier(object):
    def __init__(self, text):
        self.text = text

    def __repr__(self):
        return '<Carrier %s>' % self.text


class BadRepr(object):
    def __repr__(self):
        raise RuntimeError('repr of this resource fails')


def make_value(kind, sentinel):
    if kind == 'str':
        return sentinel
    if kind == 'bytes':
        return sentinel.encode('ascii')
    if kind == 'rawbytes':         # not valid UTF-8, like an os.urandom() key
        return b'\xff\xfe' + sentinel.encode('ascii') + b'\x80\xc3'
    if kind == 'number':
        return int(sentinel)
    if kind == 'nested':
        return {'k': [1, {'deep': sentinel}], 's': (sentinel,)}
    if kind == 'object-repr':
        return ReprCarrier(sentinel)
    if kind == 'long-nospace':     # a URL, a hex digest, a token: long and without a blank to break at
        return sentinel + '/' + 'a1b2c3d4' * 20
    if kind == 'url-like':        # values that contain what credential scrubbers look for, without being credentials
        return ['https://social.example/' + sentinel + '/@clastic', 'git+https://code.example/org/' + sentinel + '.git@v1.4',
                'https://example.org/' + sentinel + '?to=ops@example.org', 'mailto:' + sentinel + '@example.org',
                'postgres://db.example/' + sentinel + '#user@host'][int(sentinel[-3], 36) % 5]
    if kind == 'tuple':           # tuples and namedtuples are what '%r' % value trips over
        import collections
        Point = collections.namedtuple('Point', 'label x')
        return [(sentinel, 4, 2), (sentinel,), Point(sentinel, 7), ((sentinel, 1), ())][int(sentinel[-3], 36) % 4]
    if kind == 'surrogate-str':   # what os.fsdecode makes of a file name that is not UTF-8
        return '/srv/data/' + sentinel + '/upl\udcf6ads'
    if kind == 'nonascii':        # readable text is to stay readable
        return 'S\u00e3o Paulo \u2603 ' + sentinel + ' \u65e5\u672c'
    if kind == 'mixed-keys':      # sortable by nobody: keys of different types
        return {200: sentinel, 'default': 'Error', None: 1, (1, 2): 'tuple key'}
    if kind == 'self-ref':        # a container that holds itself
        lst = [sentinel, {'k': 1}]
        lst.append(lst)
        return lst
    if kind == 'equal-twin':      # equal to (and hashing like) a value of another type that some other resource may hold
        return [True, 1.0, 1, (1, 0), (True, False), 0.0, False, -0.0][int(sentinel[-3], 36) % 8]
    if kind == 'long-words':
        return sentinel + ' lorem ipsum dolor' * 12
    return BadRepr()


def gen_host(rng, n):
    res = []
    counter = [0]

    def sentinel(kind):
        counter[0] += 1
        if kind == 'number':
            return '%d%06d%04d7' % (9, n % 1000000, counter[0])
        return 'Zq%dx%dJw' % (n, counter[0])
    used = set()
    for _ in range(rng.randint(0, 8)):
        secret = rng.chance(0.5)
        if secret:
            pos = rng.pick(list(SECRET_NAMES))
            name = rng.pick(SECRET_NAMES[pos])
        else:
            pos, name = None, rng.pick(PLAIN_NAMES)
        if name in used:
            continue
        used.add(name)
        kind = rng.pick(['str', 'str', 'bytes', 'rawbytes', 'number', 'nested', 'object-repr', 'long-nospace', 'long-words', 'url-like', 'tuple', 'surrogate-str', 'nonascii', 'mixed-keys', 'self-ref', 'equal-twin', 'equal-twin'] + (['bad-repr'] if rng.chance(0.15) else []))
        res.append({'name': name, 'secret': secret, 'pos': pos, 'kind': kind, 'sentinel': sentinel(kind)})
    routes = [rng.pick(['func', 'lambda', 'method', 'callable', 'static', 'classm', 'decorated', 'reroute', 'staticfile', 'staticapp',
                        'subapp', 'render-arg', 'render-arg-object', 'partial-render', 'methods'])
              for _ in range(rng.randint(1, 8))]
    mws = [rng.pick(['cookie', 'cookie', 'stats', 'gzip', 'hostile-repr', 'getparam', 'raising-repr', 'always-raising-repr', 'surrogate-repr', 'nonascii-repr'])
           for _ in range(rng.randint(0, 3))]
    mws = [m for i, m in enumerate(mws) if i == mws.index(m)]      # one instance per kind (two would offer the same name)
    return {'resources': res, 'routes': routes, 'mws': mws, 'cookie_key': sentinel('str') + 'KEY', 'depth': rng.pick([1, 1, 2]),
            'prefix': rng.pick(['/_meta/', '/_meta', '/admin/meta/', '/m']), 'factory': rng.chance(0.5),
            'uses': [r['name'] for r in res if rng.chance(0.3) and re.match(r'^[A-Za-z_]\w*$', r['name'])],
            # a host ContextProcessor that copies some resources into every render context
            'ctxproc': ([r['name'] for r in res if rng.chance(0.5) and re.match(r'^[A-Za-z_]\w*$', r['name'])]
                        if rng.chance(0.2) else []),
            # a system call one of the informational sections depends on fails while the page is computed
            'fault': rng.pick(sorted(FAULTS)) if rng.chance(0.2) else None,
            # ... with the arguments such an error usually carries, without any (TimeoutError()), or with odd ones
            'fault_args': rng.pick(['usual', 'usual', 'none', 'none', 'empty-str', 'non-str', 'many']),
            # depth 2: the application in the middle is also served on its own (same MetaApplication object) and asked first
            'warm_inner': rng.chance(0.4)}


FAULTS = {'os.getcwd': FileNotFoundError(2, 'No such file or directory'), 'os.times': OSError(5, 'Input/output error'),
          'os.getpid': RuntimeError('no pid'), 'os.umask': PermissionError(1, 'Operation not permitted'),
          'socket.gethostname': OSError(14, 'Bad address'), 'socket.getfqdn': UnicodeError('label empty or too long'),
          'platform.uname': OSError(12, 'Cannot allocate memory'), 'platform.platform': KeyError('glibc'),
          'resource.getrusage': OSError(22, 'Invalid argument'), 'resource.getrlimit': ValueError('invalid resource specified'),
          'sys.getrecursionlimit': RuntimeError('unavailable')}


def faulty_module(real, name, exc):
    """stands in for a module imported by clastic.meta: a copy in which one function raises"""
    import types
    m = types.ModuleType(real.__name__)
    m.__dict__.update(real.__dict__)
    m.fired = 0

    def failing(*a, **kw):
        m.fired += 1
        raise exc
    if name in m.__dict__:
        m.__dict__[name] = failing
    return m


def fault_exception(fault, how):
    exc = FAULTS[fault]
    if how == 'none':
        return type(exc)()
    if how == 'empty-str':
        return type(exc)('')
    if how == 'non-str':
        return type(exc)(b'\xff raw', 7) if not isinstance(exc, UnicodeError) else type(exc)(None)
    if how == 'many':
        return type(exc)(5, 'five', 'third', None, 'fifth') if isinstance(exc, OSError) else type(exc)('a', 'b', 'c')
    return exc


class inject_fault(object):
    def __init__(self, fault, how='usual'):
        self.fault, self.proxy, self.how = fault, None, how

    def __enter__(self):
        if self.fault:
            import clastic.meta as cm
            modname, func = self.fault.split('.')
            self.real = getattr(cm, modname, None)
            if self.real is not None:
                self.proxy = faulty_module(self.real, func, fault_exception(self.fault, self.how))
                setattr(cm, modname, self.proxy)
        return self

    def __exit__(self, *exc):
        if self.proxy is not None:
            import clastic.meta as cm
            setattr(cm, self.fault.split('.')[0], self.real)
        return False

    @property
    def fired(self):
        return self.proxy.fired if self.proxy is not None else 0


def build_host(host):
    import os
    from clastic import Application, Route, Response, Middleware, MetaApplication, StaticApplication, StaticFileRoute, RerouteWSGI
    from clastic.decorators import clastic_decorator
    from clastic.middleware import GzipMiddleware, GetParamMiddleware, ContextProcessor
    from clastic.middleware.stats import StatsMiddleware
    from clastic.middleware.cookie import SignedCookieMiddleware
    resources = dict((r['name'], make_value(r['kind'], r['sentinel'])) for r in host['resources'])
    here = os.path.dirname(os.path.abspath(__file__))

    class K(object):
        def meth(self, request):
            return Response('m')

        def __call__(self):
            return Response('c')

        @staticmethod
        def st():
            return Response('s')

        @classmethod
        def cm(cls):
            return Response('k')

    @clastic_decorator
    def deco(f):
        @functools.wraps(f)
        def w(*a, **kw):
            return f(*a, **kw)
        return w

    @deco
    def decorated(request):
        return Response('d')

    def func():
        return Response('f')
    # an endpoint that takes some (identifier-named) resources: exercises the argument-source table
    uses = host['uses']
    ns = {'Response': Response}
    exec('def user(%s):\n    return Response("u")\n' % ', '.join(uses), ns)
    routes = [Route('/uses', ns['user'])]

    def wsgi_target(environ, start_response):
        start_response('200 OK', [('Content-Type', 'text/plain')])
        return [b'w']
    for i, kind in enumerate(host['routes']):
        p = '/r%d' % i
        if kind == 'func':
            routes.append(Route(p, func))
        elif kind == 'lambda':
            routes.append(Route(p + '/<x>', lambda x: Response(x)))
        elif kind == 'method':
            routes.append(Route(p, K().meth))
        elif kind == 'callable':
            routes.append(Route(p, K()))
        elif kind == 'static':
            routes.append(Route(p, K.st))
        elif kind == 'classm':
            routes.append(Route(p, K.cm))
        elif kind == 'decorated':
            routes.append(Route(p, decorated))
        elif kind == 'reroute':
            routes.append(Route(p, RerouteWSGI(wsgi_target)))
        elif kind == 'staticfile':
            routes.append(StaticFileRoute(p, os.path.join(here, '__init__.py')))
        elif kind == 'staticapp':
            routes.append((p + '/', StaticApplication(here)))
        elif kind == 'subapp':
            # the embedded application may have a value of its own under a (non-secret) resource name of the host, and an
            # endpoint taking it: the pages of the host describe the host
            vis = [r['name'] for r in host['resources'] if not r['secret'] and re.match(r'^[A-Za-z_]\w*$', r['name'])]
            sub_routes = [Route('/in', func), Route('/in/<y:int>', lambda y: Response(str(y)))]
            sub_res = {}
            if vis and i % 2 == 0:
                ns2 = {'Response': Response}
                exec('def takes(%s):\n    return Response("t")\n' % vis[0], ns2)
                sub_routes.append(Route('/takes', ns2['takes']))
                sub_res = {vis[0]: 'value-of-the-embedded-application'}
            routes.append((p, Application(sub_routes, resources=sub_res)))
        elif kind == 'render-arg':
            routes.append(Route(p, lambda: {'a': 1}, 'some_template.html' if host['factory'] else (lambda context: Response('r'))))
        elif kind == 'render-arg-object':
            # a render argument that is neither a callable nor a string (for a render factory to interpret)
            spec = ReprCarrier('spec')          # an object that reaches itself through its attributes (spec <-> factory)
            spec.factory = ReprCarrier('factory')
            spec.factory.specs = [spec]
            spec.parent = spec
            class StrRaises(ReprCarrier):
                # describable (repr works), but not convertible to text
                def __str__(self):
                    raise RuntimeError('no text form')
            arg = [ReprCarrier('tmpl'), ('name.html', 2), {'template': ReprCarrier('t')}, b'raw.html', 7, spec, {'self': spec}, StrRaises('nostr'),
                   [StrRaises('in-a-list')]][i % 9]
            routes.append(Route(p, lambda: {'a': 1}, arg if host['factory'] else (lambda context: Response('r'))))
        elif kind == 'partial-render':
            routes.append(Route(p, lambda: {'a': 1}, K()))
        else:
            routes.append(Route(p, func, methods=['GET', 'POST']))

    class Hostile(Middleware):
        def request(self, next):
            return next()

        def __repr__(self):
            return '<Hostile "&<b>\'{x}>'
    class RaisingRepr(Middleware):
        # describes itself by something it only has once it has served a request
        def request(self, next):
            r = next()
            self.last_status = r.status_code
            return r

        def __repr__(self):
            return '<RaisingRepr last=%s>' % self.last_status

    class AlwaysRaisingRepr(Middleware):
        def request(self, next):
            return next()

        def __repr__(self):
            raise RuntimeError('no description available')

    class SurrogateRepr(Middleware):
        # configured with a file-system path that is not UTF-8 (os.fsdecode keeps such bytes as lone surrogates)
        def request(self, next):
            return next()

        def __repr__(self):
            return '<SurrogateRepr dir=%s>' % os.fsdecode(b'/srv/t\xe9l\xe9chargements')

    class NonAsciiRepr(Middleware):
        def request(self, next):
            return next()

        def __repr__(self):
            return '<NonAsciiRepr r\u00e9pertoire=\u65e5\u672c Zoe\u0308>'
    mws = []
    for m in host['mws']:
        mws.append({'cookie': lambda: SignedCookieMiddleware(secret_key=host['cookie_key'].encode('ascii')),
                    'stats': StatsMiddleware, 'gzip': GzipMiddleware, 'hostile-repr': Hostile, 'raising-repr': RaisingRepr, 'always-raising-repr': AlwaysRaisingRepr,
                    'surrogate-repr': SurrogateRepr, 'nonascii-repr': NonAsciiRepr,
                    'getparam': lambda: GetParamMiddleware(['page'])}[m]())
    if host.get('ctxproc'):
        mws.append(ContextProcessor(required=list(host['ctxproc'])))
    meta = MetaApplication()
    if host['depth'] == 1:
        routes.append((host['prefix'], meta))
        base = host['prefix'].rstrip('/')
    else:
        mid = Application([('/inner/', meta)])
        _state['mid'] = mid
        routes.append((host['prefix'], mid))
        base = host['prefix'].rstrip('/') + '/inner'
    factory = None
    if host['factory']:
        def factory(arg):
            return lambda context: Response('rendered %s' % arg)
    app = Application(routes, resources=resources, middlewares=mws, render_factory=factory)
    return app, base


_state = {'mid': None}
KNOWN_CTXPROC = 'host-context-processor-values-in-meta-json-view'


def caused_by_host_context_processor(host, secrets):
    """Known mechanism (known_findings.json): a ContextProcessor of the *host* copies resources into the render
    context of every route, the meta JSON view serialises its whole context - the value shows up (or, if it is not
    JSON-serialisable, the view fails).  Recognised by its cause: the very same host without that ContextProcessor
    renders the JSON view with status 200 and without any secret."""
    if not host.get('ctxproc'):
        return False
    try:
        app2, base2 = build_host(dict(host, ctxproc=[]))
        ex2 = probe.request(app2, 'GET', base2 + '/json/')
        if ex2.exc is not None or ex2.status != 200:
            return False
        body2 = ex2.body.decode('utf8', 'replace')
        return not any(f in body2 for r in secrets if r['kind'] != 'bad-repr' for f in forms_of(r['sentinel']))
    except Exception:
        return False


def forms_of(sentinel):
    return set([sentinel, html.escape(sentinel), json.dumps(sentinel)[1:-1], repr(sentinel)[1:-1]])


def judge(sh, host, record=True):
    with inject_fault(host.get('fault'), host.get('fault_args') or 'usual') as fi:
        _judge(sh, host, record, fi)
    if fi.fired:
        sh.hit('fault-injected')
        sh.hit('fault:' + host['fault'])
        sh.hit('fault-arguments:' + (host.get('fault_args') or 'usual'))


def _judge(sh, host, record, fi):
    case = {'host': host}
    try:
        _state['mid'] = None
        app, base = build_host(host)
    except Exception as e:
        import traceback
        raise RuntimeError('harness could not build the host application: %r\n%s' % (e, traceback.format_exc()[-800:]))
    secrets = [r for r in host['resources'] if r['secret']]
    visible = [r for r in host['resources'] if not r['secret']]
    has_bad = any(r['kind'] == 'bad-repr' for r in host['resources'])
    has_cookie = 'cookie' in host['mws']
    if record:
        sh.case({'host': dict(host, cookie_key='<key>')}, nontrivial=bool(secrets) or has_cookie,
                klass='depth%d:%s' % (host['depth'], 'secrets' if secrets else 'nosecrets'),
                sample={'resources': [(r['name'], r['kind'], r['secret']) for r in host['resources']], 'routes': host['routes'],
                        'mws': host['mws'], 'prefix': host['prefix'], 'depth': host['depth']})
    if host['depth'] == 2:
        sh.hit('depth:2')
    if has_cookie:
        sh.hit('cookie-key-hosts')
    if host.get('ctxproc'):
        sh.hit('host-context-processor')
    for m in host['mws']:
        if m.endswith('-repr'):
            sh.hit('middleware:' + m)
    if 'render-arg-object' in host['routes'] and host['factory']:
        sh.hit('route:render-arg-object')
    for r in host['resources']:
        if r['secret']:
            sh.hit('name:' + r['pos'])
        if r['kind'] != 'str':
            sh.hit('value:' + r['kind'])
    if host['depth'] == 2 and host.get('warm_inner') and _state['mid'] is not None:
        # the same MetaApplication object answers for the application in the middle first: that application has no
        # resources, middlewares or routes of the host, and nothing of this answer may carry over
        for path in ('/inner/', '/inner/json/'):
            exw = probe.request(_state['mid'], 'GET', path)
            if exw.exc is not None or exw.status != 200:
                sh.violation('C18/status-%s' % exw.status, '[inner application on its own, %s] status %s %s %r'
                             % (path, exw.status, probe.safe_repr(exw.exc)[:200] if exw.exc else '', exw.body[:200]), case)
                return
        sh.hit('same-meta-application-asked-through-two-applications')
    for view, path in (('html', base + '/'), ('json', base + '/json/')):
        ex = probe.request(app, 'GET', path, headers={'Accept': 'text/html'})

        def bad(key, what):
            sh.violation('C18/' + key, '[%s view %s] %s (resources %r, middlewares %r)'
                         % (view, path, what, [(r['name'], r['kind']) for r in host['resources']], host['mws']), case)
        if ex.exc is not None:
            bad('exception-escaped', '%s escaped' % probe.safe_repr(ex.exc)[:300])
            continue
        if ex.status != 200:
            if view == 'json' and caused_by_host_context_processor(host, secrets):
                bad(KNOWN_CTXPROC, 'status %s %r' % (ex.status, ex.body[:200]))
            else:
                bad('status-%s' % ex.status, 'status %s %r' % (ex.status, ex.body[:300]))
            continue
        body = ex.body.decode('utf8', 'replace')
        leaked = False
        for r in secrets:
            if r['kind'] == 'bad-repr':
                continue
            if any(f in body for f in forms_of(r['sentinel'])):
                key = 'secret-resource-leaked'
                if view == 'json' and caused_by_host_context_processor(host, secrets):
                    key = KNOWN_CTXPROC
                bad(key, 'the value of %r (%s) appears in the body' % (r['name'], r['kind']))
                leaked = True
                break
        if leaked:
            continue
        if has_cookie and any(f in body for f in forms_of(host['cookie_key'])):
            bad('cookie-key-leaked', 'the signing key of the cookie middleware appears in the body')
            continue
        if secrets:
            sh.hit('secret-resources-rendered')
        if 'exc_content' in body:
            sh.hit('inline-section-failure-seen')
        if view == 'json':
            try:
                data = json.loads(body)
            except ValueError as e:
                bad('json-unparsable', str(e))
                continue
            sh.hit('json-view-parsed')
            listed = dict((d['key'], d['value']) for d in (data.get('app', {}).get('resources') or []) if isinstance(d, dict))
            if has_bad:
                continue
            markers = set()
            for r in secrets:
                # listed, with a marker in place of the value (the marker's wording is not fixed by the statement)
                if not isinstance(listed.get(r['name']), str) or not listed[r['name']]:
                    bad('secret-not-marked-redacted', 'resource %r is listed as %r' % (r['name'], listed.get(r['name'])))
                    break
                markers.add(listed[r['name']])
                sh.hit('redaction-marker-seen:json')
            else:
                if len(markers) > 1:
                    bad('secret-not-marked-redacted', 'secret resources are shown with different texts %r, not one marker' % sorted(markers))
                    continue
                for r in visible:
                    if r['kind'] == 'equal-twin':
                        # True, 1 and 1.0 (or (1, 0) and (True, False)) are equal and hash alike - and are different values
                        want = repr(make_value('equal-twin', r['sentinel']))
                        if listed.get(r['name']) != want:
                            bad('non-secret-resource-hidden', 'resource %r is listed as %r, its value is %s' % (r['name'], listed.get(r['name']), want))
                            break
                        sh.hit('visible-control-seen:json')
                        continue
                    if r['kind'] == 'nonascii' and r['name'] in listed and 'S\u00e3o Paulo \u2603' not in str(listed[r['name']]):
                        bad('non-secret-resource-hidden', 'resource %r is listed as %r: its (short, readable) text should be shown as it is'
                            % (r['name'], listed.get(r['name'])))
                        break
                    if r['name'] not in listed or r['sentinel'] not in str(listed[r['name']]):
                        bad('non-secret-resource-hidden', 'resource %r is listed as %r, its value should be visible' % (r['name'], listed.get(r['name'])))
                        break
                    sh.hit('visible-control-seen:json')
        else:
            if has_bad:
                continue
            text = html.unescape(re.sub(r'<[^>]+>', ' ', body))
            unlisted = [r['name'] for r in secrets if r['name'] not in text]
            if unlisted:
                bad('secret-not-marked-redacted', 'secret resources %r are not listed on the page at all' % unlisted)
                continue
            if secrets:
                sh.hit('redaction-marker-seen:html')
            for r in visible:
                if r['kind'] == 'equal-twin':
                    continue            # short common texts (True, 1.0): judged in the JSON view, where each value has its own field
                if r['kind'] == 'nonascii' and 'S\u00e3o Paulo \u2603' not in text:
                    bad('non-secret-resource-hidden', 'the (short, readable) text of %r does not appear on the page as it is' % r['name'])
                    break
                if r['sentinel'] not in text:
                    bad('non-secret-resource-hidden', 'the value of %r does not appear on the page' % r['name'])
                    break
                sh.hit('visible-control-seen:html')


def plan(tier, seed):
    return [{'label': 'rand-%d' % i, 'index': i, 'n': 70 if tier == 'quick' else 3200, 'timeout': 7200} for i in range(NSHARDS)] + \
           [{'label': 'while-serving', 'kind': 'while-serving', 'timeout': 7200}]


def views_while_serving(sh, spec):
    """The meta pages are asked for while the host application serves its ordinary requests: single-preemption schedules of a
    meta view (HTML, JSON) against a request to a host route rendered as strict JSON (sampled preemption points; both orders).
    Either answer is what it is when asked alone."""
    import os
    from clastic import Application, Route, Response, MetaApplication, render_json, render_basic
    from .. import sched
    from ..common import REPO
    roots = (os.path.join(REPO, 'clastic') + os.sep, '<sinter generated')

    def factory(arg):
        return lambda context: Response('rendered %r' % (arg,))

    def build():
        spec_obj = ReprCarrier('page-spec')
        return Application([Route('/obj', lambda: {'a': 1}, spec_obj), Route('/tmpl', lambda: {'a': 1}, {'template': ReprCarrier('t')}),
                            Route('/strict', lambda: {'n': [1, 2, 3], 't': 'plain', 'nested': {'k': None}}, render_json),
                            Route('/basic', lambda: {'rows': [1, 2]}, render_basic),
                            ('/_meta/', MetaApplication())],
                           resources={'db_secret': 'Zq77x1Jw-SECRET', 'greeting': 'Zq77x2Jw-visible', 'obj': ReprCarrier('resource')},
                           render_factory=factory)

    def job(app, path):
        def run():
            return probe.request(app, 'GET', path, headers={'Accept': 'application/json'})
        return run

    def obs(ex):
        if ex.exc is not None:
            return ('exc', probe.safe_repr(ex.exc)[:200])
        body = re.sub(rb'0x[0-9a-f]+', b'0x', ex.body)
        if b'"app"' in body:
            # the meta JSON view: what varies from one computation to the next (times, load, memory) is not the subject
            try:
                data = json.loads(body.decode('utf8'))
                body = json.dumps({'resources': data.get('app', {}).get('resources'), 'routes': len(data.get('app', {}).get('routes') or []),
                                   'mws': data.get('app', {}).get('middlewares')}, sort_keys=True, default=repr).encode()
            except ValueError as e:
                body = b'unparsable: ' + str(e).encode()
        elif b'<html' in body.lower():
            body = ('secret-shown' if b'Zq77x1Jw' in body else 'secret-hidden').encode() + b' ' + (b'visible-shown' if b'Zq77x2Jw' in body else b'visible-missing')
        return (ex.status, (ex.header('Content-Type') or '').split(';')[0], body)
    paths = ['/_meta/json/', '/_meta/', '/strict', '/basic']
    want = {p: obs(job(build(), p)()) for p in paths}
    app = build()
    for a, b in (('/_meta/json/', '/strict'), ('/strict', '/_meta/json/'), ('/_meta/', '/strict'), ('/_meta/json/', '/basic'), ('/basic', '/_meta/json/')):
        n_points = sched.count_points(job(app, a), roots)
        step = max(1, n_points // (90 if spec.get('tier') == 'quick' else 1500))
        for k in range(1, n_points + 1, step):
            s = sched.Scheduler(2, sched.preempt_once(k), roots)
            res = s.run([job(app, a), job(app, b)])
            case = {'views_while_serving': [a, b], 'k': k}
            sh.case(case, nontrivial=bool(s.switches), klass='meta-view-while-serving')
            if s.broken:
                sh.hit('watchdog-fired')
                continue
            sh.hit('schedules:meta-view-while-serving')
            for (tag, val), p in zip(res, (a, b)):
                got = obs(val) if tag == 'ok' else (tag, probe.safe_repr(val)[:200])
                if got != want[p]:
                    key = 'status-%s' % got[0] if p.startswith('/_meta') and isinstance(got[0], int) and got[0] != 200 else 'view-differs-while-serving'
                    sh.violation('C18/' + key, '%s asked while %s is being served (preemption after %d steps of %s): %r - asked alone: %r'
                                 % (p, b if p == a else a, k, a, got, want[p]), case)
                    return


def run_shard(sh, spec):
    if spec.get('kind') == 'while-serving':
        return views_while_serving(sh, spec)
    rng = Rng(spec['seed'], PROPERTY, spec['label'])
    for i in range(spec['n']):
        judge(sh, gen_host(rng, spec['index'] * 100000 + i))


def replay(sh, case, spec):
    if 'views_while_serving' in case:
        return views_while_serving(sh, dict(spec, tier='thorough'))
    judge(sh, case['host'], record=False)
