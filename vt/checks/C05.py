# -*- coding: utf-8 -*-
"""C05 - URL patterns match exactly the paths their mini-language describes.

Monitor: every (pattern, slash mode, path) triple is run through the real
BoundRoute.match_path and judged by the independent segment-assignment matcher in
models/urlmatch.py (strict/liberal lexical sandwich, DESIGN.md O1-O3)."""
import itertools

from ..common import Rng
from ..models import urlmatch as um

PROPERTY = 'C05'
LEVEL = 'exploration'
RULE = ('cases are (pattern, slash mode, path) triples; quick enumerates every pattern of <=2 '
        'elements (2 literals, 16 op x type bindings, with/without trailing slash, 3 modes) against '
        'every string of length <=4 over the 10-symbol alphabet, plus random long paths and the '
        'pattern-grammar cases; a triple is non-trivial when the pattern has a binding and the '
        "path's slashes do not already rule a match out (the assignment search is entered); "
        'enumerated triples are pairwise distinct by construction, random ones are hashed')
EXHAUSTIVE = {'quick': 'all patterns of <=2 elements x 3 modes x all strings of length <=4 over "/a1.-+ eEé"',
              'thorough': 'quick space on strings <=5 (9 symbols) plus all <=3-element patterns over a '
                          'reduced vocabulary on strings <=5 over 7 symbols'}
ASSUMPTIONS = ['literal segments only over [A-Za-z0-9_-] (O1)',
               "strict-mode '' vs '/' on all-optional leaf patterns is don't-care (O2)",
               'int/float validity judged by a strict/liberal sandwich (O3)',
               'paths contain no newline (outside the stated alphabet)']
REQUIRED_REACH = ['match:redirect', 'match:rewrite', 'match:strict', 'nomatch:redirect',
                  'nomatch:rewrite', 'nomatch:strict', 'grammar:rejected', 'grammar:accepted',
                  'e2e:params-compared', 'e2e:redirect-followed', 'mode-established-by:route', 'mode-established-by:embedded']

MODES = ('redirect', 'rewrite', 'strict')
ALPHABET_Q = ['/', 'a', '1', '.', '-', '+', ' ', 'e', 'E', 'é']
LITS = ['a', '1']
OPS = ['', '?', '*', '+']
TYPS = ['', 'int', 'float', 'str']


def binding(name, op, typ):
    if op == '' and typ:
        return '<%s:%s>' % (name, typ)
    return '<%s%s%s>' % (name, op, typ)


def element_vocab(ops=OPS, typs=TYPS, lits=LITS):
    v = [('lit', l) for l in lits]
    v += [('bind', op, typ) for op in ops for typ in typs]
    return v


def render(elems, trailing):
    parts = []
    for i, e in enumerate(elems):
        if e[0] == 'lit':
            parts.append(e[1])
        else:
            parts.append(binding('x%d' % i, e[1], e[2]))
    s = '/' + '/'.join(parts)
    if trailing and parts:
        s += '/'
    return s


def all_patterns(max_elems, vocab):
    pats = ['/']
    for n in range(1, max_elems + 1):
        for combo in itertools.product(vocab, repeat=n):
            for trailing in (False, True):
                pats.append(render(combo, trailing))
    return pats


def all_paths(alphabet, maxlen):
    out = ['']
    for n in range(1, maxlen + 1):
        out.extend(''.join(t) for t in itertools.product(alphabet, repeat=n))
    return out


class Matcher(object):
    """the real thing: one route bound so that its effective slash mode is `mode`, established in one of three
    ways - on the Application (how='app'), on the Route with inheritance opted out (how='route'), or on an outer
    Application that embeds the route's application under a prefix (how='embedded')"""
    PREFIX = '/emb'

    def __init__(self, pattern, mode, how='app'):
        from clastic import Application, Route, SubApplication
        other = {'strict': 'redirect', 'redirect': 'strict', 'rewrite': 'strict'}[mode]
        self.prefix = ''
        if how == 'app':
            self.app = Application([Route(pattern, _ep)], slash_mode=mode)
        elif how == 'route':
            self.app = Application([], slash_mode=other)
            self.app.add(Route(pattern, _ep, slash_mode=mode), inherit_slashes=False)
        else:
            inner = Application([Route(pattern, _ep, slash_mode=other)], slash_mode=other)
            self.app = Application([SubApplication(self.PREFIX, inner)], slash_mode=mode)
            self.prefix = self.PREFIX
        self.broute = self.app.routes[0]

    def __call__(self, path):
        return self.broute.match_path(self.prefix + path)


def _ep():
    return None


def _short(x):
    import re
    return re.sub(r'(.)\1{40,}', lambda m: '%s{x%d}' % (m.group(1), len(m.group())), repr(x))[:400]


def _collapse(path):
    import re
    return re.sub('/+', '/', path)


def classify(kind, elements, mode, path, impl=None, r=None, branch=False):
    """Mechanism key.  One known mechanism is singled out (see known_findings.json): in the
    tolerant slash modes the converter of a '*'/'+' binding splits its captured text on '/'
    and keeps the empty pieces between repeated slashes - str lists get '' members, typed
    lists fail to convert.  It is recognised by its *cause*: the same request with the
    repeated slashes collapsed is handled correctly, and (for wrong values) dropping the
    empty members gives exactly the right answer."""
    multi = [e for e in elements if e[0] == 'bind' and e[2] in ('*', '+')]
    if mode != 'strict' and multi and '//' in path:
        try:
            if kind == 'bad-values' and isinstance(r, dict):
                cleaned = {k: ([x for x in v if x != ''] if isinstance(v, list) else v)
                           for k, v in r.items()}
                if cleaned != r and um.check_values(elements, branch, mode, path, cleaned) is None:
                    return 'C05/multi-binding-keeps-empty-segment'
            if kind == 'missed-match' and any(e[3] in ('int', 'float') for e in multi):
                r2 = impl(_collapse(path))
                if r2 is not None and um.check_values(elements, branch, mode, _collapse(path), r2) is None:
                    return 'C05/multi-binding-keeps-empty-segment'
        except Exception:
            pass
    return 'C05/' + kind


def judge(sh, pattern, elements, branch, mode, path, impl, segs_hint=None, record=True, how='app'):
    """Run one triple through the real matcher and the oracle.  Returns non-triviality."""
    try:
        r = impl(path)
    except Exception as e:
        sh.violation(classify('match-raises', elements, mode, path),
                     'match_path(%r) on %r [%s] raised %s: %s' % (path, pattern, mode, type(e).__name__, e),
                     {'pattern': pattern, 'mode': mode, 'path': path, 'how': how})
        return True
    segs = um.segments(path, branch, mode)
    has_bind = any(e[0] == 'bind' for e in elements)
    if segs is None:
        strict = liberal = False
    else:
        strict = um.assignable(elements, segs, 'strict')
        liberal = strict or um.assignable(elements, segs, 'liberal')
    if um.dont_care(elements, branch, mode, path):
        sh.hit('dontcare:O2')
        return False
    if strict != liberal:
        sh.hit('sandwich-gap:O3')
    if r is None:
        sh.hit('nomatch:' + mode)
        if strict and any(e[0] == 'bind' and e[3] == 'int' for e in elements) and \
                any(um.unconvertible(x) for x in segs):
            sh.hit('dontcare:O3-unconvertible-int')
        elif strict:
            sh.violation(classify('missed-match', elements, mode, path, impl, None, branch),
                         'pattern %r [%s] does not match %r although segments %r can be assigned'
                         % (pattern, mode, _short(path), _short(segs)),
                         {'pattern': pattern, 'mode': mode, 'path': path, 'how': how})
    else:
        sh.hit('match:' + mode)
        if not liberal:
            sh.violation(classify('false-match', elements, mode, path),
                         'pattern %r [%s] matches %r -> %r although no assignment of %r exists'
                         % (pattern, mode, _short(path), _short(r), _short(segs)),
                         {'pattern': pattern, 'mode': mode, 'path': path, 'how': how})
        else:
            why = um.check_values(elements, branch, mode, path, r)
            if why:
                sh.violation(classify('bad-values', elements, mode, path, impl, r, branch),
                             'pattern %r [%s] on %r returned %r: %s' % (pattern, mode, _short(path), _short(r), why),
                             {'pattern': pattern, 'mode': mode, 'path': path, 'how': how})
            for e in elements:
                if e[0] == 'bind':
                    sh.hit('matched-binding:%s%s' % (e[2] or '1', e[3]))
        # what a match hands out belongs to the receiver, who may do with it what it likes: every list (also the empty one of
        # an absent binding) is scribbled on - the next match must come with values of its own
        if isinstance(r, dict):
            for v in r.values():
                if type(v) is list:
                    v.append('<left behind by an earlier receiver>')
                    sh.hit('handed-out-list-scribbled-on')
    return has_bind and segs is not None


def run_space(sh, patterns, paths, modes=MODES, sample_every=9973, how='app'):
    n_eval = n_nontrivial = 0
    for pattern in patterns:
        elements, branch = um.parse(pattern)
        for mode in modes:
            try:
                impl = Matcher(pattern, mode, how)
            except Exception as e:
                sh.violation('C05/valid-pattern-rejected',
                             'Route(%r) [%s] raised %s: %s' % (pattern, mode, type(e).__name__, e),
                             {'pattern': pattern, 'mode': mode, 'path': None})
                continue
            for path in paths:
                nt = judge(sh, pattern, elements, branch, mode, path, impl, how=how)
                n_eval += 1
                n_nontrivial += bool(nt)
                if n_eval % sample_every == 1:
                    sh.sample('enumerated-%d' % (n_eval // sample_every),
                              {'pattern': pattern, 'mode': mode, 'path': path, 'result': impl(path)})
    sh.count_enumerated(n_eval, n_nontrivial)


# ---- pattern grammar ------------------------------------------------------------------

GRAMMAR_BAD = [
    ('a', 'no leading slash'), ('a/b', 'no leading slash'), ('<x>', 'no leading slash'), ('', 'no leading slash'),
    ('//', 'double slash'), ('/a//b', 'double slash'), ('//a', 'double slash'), ('/a//', 'double slash'),
    ('/<x>//<y>', 'double slash'),
    ('/<x>/<x>', 'duplicate binding'), ('/<x:int>/a/<x*>', 'duplicate binding'), ('/<x?>/<y>/<x+float>', 'duplicate binding'),
    ('/<x:foo>', 'unknown type'), ('/<x:integer>', 'unknown type'), ('/<x*bytes>', 'unknown type'),
    ('/a/<x?Int>', 'unknown type'), ('/<x:bool>', 'unknown type'),
    # type names need not look like identifiers to be unknown
    ('/<x:2>', 'unknown type'), ('/x/<a?3d>', 'unknown type'), ('/<a*64bit>/', 'unknown type'), ('/<b>/<a+0int>/y', 'unknown type'),
    ('/<x:int2>', 'unknown type'), ('/<x:_>', 'unknown type'), ('/<x:\u00fcnt>', 'unknown type'), ('/<x:1>/<y:int>', 'unknown type'),
    ('/<x!int>', 'unknown operator'), ('/<x??>', 'unknown operator'), ('/<x int>', 'unknown operator'),
    ('/<x**>', 'unknown operator'), ('/<x~>', 'unknown operator'), ('/<x+?str>', 'unknown operator'),
    ('/<x=float>', 'unknown operator'), ('/<x|>', 'unknown operator'), ('/<x::int>', 'unknown operator'),
]


def grammar_cases(sh, rng, n_random):
    from clastic import Route
    from clastic.route import InvalidPattern
    cases = [(p, why) for p, why in GRAMMAR_BAD]
    vocab = element_vocab(typs=TYPS + ['unicode'])
    for _ in range(n_random):
        n = rng.randint(1, 4)
        elems = [rng.pick(vocab) for _ in range(n)]
        pat = render(elems, rng.chance(0.5))
        defect = rng.randrange(7)
        why = None
        if defect == 0:
            pat, why = pat[1:], 'no leading slash'
            if pat.startswith('/'):
                continue
        elif defect == 1:
            i = rng.randrange(len(pat))
            if pat[i] != '/':
                continue
            pat, why = pat[:i] + '/' + pat[i:], 'double slash'
        elif defect == 2:
            binds = [i for i, e in enumerate(elems) if e[0] == 'bind']
            if len(binds) < 2:
                continue
            a, b = rng.sample(binds, 2)
            pat = pat.replace('<x%d' % b, '<x%d' % a, 1)
            why = 'duplicate binding'
        elif defect == 3:
            typ = rng.pick(['foo', 'integer', 'String', 'number', 'path', 'uuid', '2', '3d', '64bit', '0int', 'int2', '_', '9', 'float_'])
            pat, why = pat + ('' if pat.endswith('/') else '/') + '<z%s%s>' % (rng.pick([':', '?', '*', '+']), typ), 'unknown type'
        elif defect == 4:
            op = rng.pick(['!', '??', '**', ' ', '~', '%', '=', '+*', '::', '?:'])
            pat, why = pat + ('' if pat.endswith('/') else '/') + '<z%s%s>' % (op, rng.pick(['', 'int', 'str'])), 'unknown operator'
        cases.append((pat, why))
    for pat, why in cases:
        for mode in MODES:
            sh.case({'grammar': pat, 'mode': mode}, nontrivial=True,
                    klass='grammar-' + (why or 'valid').replace(' ', '-'))
            try:
                Route(pat, _ep, slash_mode=mode)
                outcome = None
            except Exception as e:
                outcome = e
            if why is None:
                try:
                    um.parse(pat)
                except Exception as e:   # generator bug, not the repo's
                    raise AssertionError('generated an invalid control pattern %r: %r' % (pat, e))
                sh.hit('grammar:accepted')
                if outcome is not None:
                    sh.violation('C05/valid-pattern-rejected',
                                 'Route(%r) [%s] raised %s: %s' % (pat, mode, type(outcome).__name__, outcome),
                                 {'grammar': pat, 'mode': mode})
            else:
                sh.hit('grammar:rejected')
                sh.hit('grammar-rule:' + why)
                if outcome is None:
                    sh.violation('C05/invalid-pattern-accepted',
                                 'Route(%r) [%s] accepted a pattern with %s' % (pat, mode, why),
                                 {'grammar': pat, 'mode': mode, 'why': why})
                elif type(outcome) is not InvalidPattern and not isinstance(outcome, InvalidPattern):
                    sh.violation('C05/invalid-pattern-wrong-exception',
                                 'Route(%r) [%s] (%s) raised %s instead of InvalidPattern: %s'
                                 % (pat, mode, why, type(outcome).__name__, outcome),
                                 {'grammar': pat, 'mode': mode, 'why': why})


# ---- random long paths and larger patterns ---------------------------------------------

SEG_POOL = ['a', '1', 'b', '-1', '+1', '1.5', '.5', '1e5', '1E-2', '1.', '-', '+', '.', 'e', '1e', 'e1',
            ' 1', '1 ', '+ 1', '- 1.5', 'é', 'a b', '00', '-0', '1_0', 'inf', 'nan', '0x1', '١',
            '1' * 50, '9' * 5000, '1' + '0' * 400 + 'e5', '1e999', '--1', '1-', 'a1', '1a', 'éé']


def random_path(rng, lits):
    n = rng.choice([0, 1, 1, 2, 2, 3, 3, 4, 5, 8, 12, 40, 200][:rng.randint(5, 13)])
    segs = [rng.pick(SEG_POOL + lits) for _ in range(n)]
    lead = rng.choice(['/', '/', '/', '//', '', '///'])
    sep_choices = ['/', '/', '/', '//', '///']
    out = lead if segs or rng.chance(0.7) else ''
    for i, s in enumerate(segs):
        out += s
        if i < len(segs) - 1:
            out += rng.pick(sep_choices)
    out += rng.choice(['', '', '/', '//', '///'])
    return out


def random_cases(sh, rng, n_patterns, paths_per):
    vocab = element_vocab(typs=TYPS + ['unicode'], lits=['a', '1', 'b', 'ab-1_x'])
    lits = ['a', '1', 'b', 'ab-1_x']
    for _ in range(n_patterns):
        n = rng.randint(1, 4)
        elems = [rng.pick(vocab) for _ in range(n)]
        pattern = render(elems, rng.chance(0.5))
        elements, branch = um.parse(pattern)
        mode = rng.pick(MODES)
        how = rng.pick(['app', 'route', 'embedded'])
        sh.hit('mode-established-by:' + how)
        try:
            impl = Matcher(pattern, mode, how)
        except Exception as e:
            sh.violation('C05/valid-pattern-rejected',
                         'Route(%r) [%s via %s] raised %s: %s' % (pattern, mode, how, type(e).__name__, e),
                         {'pattern': pattern, 'mode': mode, 'path': None, 'how': how})
            continue
        for _ in range(paths_per):
            path = random_path(rng, lits)
            nt = judge(sh, pattern, elements, branch, mode, path, impl, how=how)
            sh.case({'pattern': pattern, 'mode': mode, 'path': path[:300], 'how': how}, nontrivial=nt,
                    klass='random-%d-elements' % n,
                    sample={'pattern': pattern, 'mode': mode, 'path': path[:120]})


# ---- end to end: the endpoint must receive what match_path computed ----------------------

def end_to_end(sh, rng, n):
    from clastic import Application, Route, Response
    from ..probe import request
    from .. import probe
    vocab = element_vocab()
    got = {}
    for _ in range(n):
        k = rng.randint(1, 3)
        elems = [rng.pick(vocab) for _ in range(k)]
        pattern = render(elems, rng.chance(0.5))
        elements, branch = um.parse(pattern)
        names = [e[1] for e in elements if e[0] == 'bind']
        mode = rng.pick(['rewrite', 'strict', 'redirect'])
        src = 'def ep(%s):\n    got["v"] = dict(%s)\n    return Response("ok")\n' % (
            ', '.join(names), ', '.join('%s=%s' % (a, a) for a in names))
        ns = {'got': got, 'Response': Response}
        exec(src, ns)
        try:
            app = Application([Route(pattern, ns['ep'])], slash_mode=mode)
        except Exception as e:
            sh.violation('C05/valid-pattern-rejected', 'Application with %r raised %r' % (pattern, e),
                         {'pattern': pattern, 'mode': mode, 'path': None})
            continue
        for _ in range(6):
            path = random_path(rng, ['a', '1'])
            if not path.startswith('/') or path.startswith('//'):
                continue   # a WSGI server always sends a rooted path; werkzeug folds leading slashes
            got.clear()
            ex = request(app, 'GET', path)
            try:
                expect = app.routes[0].match_path(path)
            except Exception as e:
                # "a segment that fails conversion makes the route not match instead of raising"
                sh.violation(classify('match-raises', elements, mode, path),
                             'match_path(%r) on %r [%s] raised %s: %s' % (_short(path), pattern, mode, type(e).__name__, e),
                             {'e2e': pattern, 'mode': mode, 'path': path})
                continue
            if ex.exc is not None:
                sh.violation(classify('match-raises', elements, mode, path),
                             'GET %r on %r [%s]: %s escaped the application' % (_short(path), pattern, mode, probe.safe_repr(ex.exc)[:200]),
                             {'e2e': pattern, 'mode': mode, 'path': path})
                continue
            sh.case({'e2e': pattern, 'mode': mode, 'path': path[:200]}, nontrivial=bool(names), klass='end-to-end')
            if ex.status == 200 and 'v' in got:
                sh.hit('e2e:params-compared')
                if expect is None or got['v'] != expect:
                    sh.violation('C05/endpoint-params-differ',
                                 'endpoint of %r [%s] got %r for %r, match_path says %r'
                                 % (pattern, mode, got.get('v'), path, expect),
                                 {'e2e': pattern, 'mode': mode, 'path': path})
                else:
                    why = um.check_values(elements, branch, mode, path, got['v'])
                    if why:
                        sh.violation(classify('bad-values', elements, mode, path, app.routes[0].match_path, got['v'], branch),
                                     'endpoint of %r [%s] on %r got %r: %s'
                                     % (pattern, mode, _short(path), _short(got['v']), why),
                                     {'e2e': pattern, 'mode': mode, 'path': path})
            elif ex.status in (301, 302, 308, 307):
                sh.hit('e2e:redirected')
                # tolerated slashes: following the redirect must hand the handler the conversions of the same segments
                from urllib.parse import urlsplit, unquote_to_bytes, urljoin
                loc = urlsplit(urljoin('http://verif.test/', ex.header('Location') or ''))
                try:
                    path2 = unquote_to_bytes(loc.path).decode('utf8')
                except UnicodeError:
                    path2 = None
                if path2:
                    got.clear()
                    ex2 = request(app, 'GET', path2)
                    canon = '/' + '/'.join(x for x in path.split('/') if x) + ('/' if branch else '')
                    try:
                        want = app.routes[0].match_path(canon)
                    except Exception as e:
                        sh.violation(classify('match-raises', elements, mode, canon),
                                     'match_path(%r) on %r [%s] raised %s: %s' % (_short(canon), pattern, mode, type(e).__name__, e),
                                     {'e2e': pattern, 'mode': mode, 'path': canon})
                        continue
                    if ex2.status == 200 and 'v' in got:
                        sh.hit('e2e:redirect-followed')
                        if want is None or got['v'] != want or um.check_values(elements, branch, mode, canon, got['v']):
                            sh.violation('C05/endpoint-params-differ-after-redirect',
                                         'endpoint of %r [%s] asked for %r, redirected to %r, received %r; the segments convert to %r'
                                         % (pattern, mode, _short(path), ex.header('Location'), _short(got.get('v')), _short(want)),
                                         {'e2e': pattern, 'mode': mode, 'path': path})
            elif ex.status == 404:
                sh.hit('e2e:404')
                if expect is not None and um.match(elements, branch, mode, path, 'strict') and mode != 'strict':
                    sh.violation('C05/endpoint-not-reached', '%r [%s] 404 for %r though it matches' % (pattern, mode, path),
                                 {'e2e': pattern, 'mode': mode, 'path': path})
            else:
                sh.violation('C05/e2e-unexpected-status', '%r [%s] %r -> %s %r' % (pattern, mode, path, ex.status, ex.body[:200]),
                             {'e2e': pattern, 'mode': mode, 'path': path})


# ---- plan / shards ------------------------------------------------------------------------

NSHARDS = 16


def plan(tier, seed):
    specs = []
    for i in range(NSHARDS):
        specs.append({'label': 'enum-%d' % i, 'kind': 'enum', 'index': i, 'of': NSHARDS,
                      'timeout': 900 if tier == 'quick' else 3600})
    for i in range(4 if tier == 'quick' else 16):
        specs.append({'label': 'rand-%d' % i, 'kind': 'random', 'index': i,
                      'timeout': 900 if tier == 'quick' else 3600})
    return specs


def run_shard(sh, spec):
    tier, seed = spec['tier'], spec['seed']
    rng = Rng(seed, PROPERTY, spec['label'])
    if spec['kind'] == 'enum':
        i, of = spec['index'], spec['of']
        if tier == 'quick':
            pats = all_patterns(2, element_vocab())
            run_space(sh, pats[i::of], all_paths(ALPHABET_Q, 4))
            # the same patterns with the mode established on the route / by an embedding application, shorter paths
            short = all_paths(['/', 'a', '1', '.', '-', ' '], 4)
            run_space(sh, pats[i::of][0::2], short, how='route')
            run_space(sh, pats[i::of][1::2], short, how='embedded')
            sh.hit('mode-established-by:route')
            sh.hit('mode-established-by:embedded')
        else:
            pats = all_patterns(2, element_vocab())
            run_space(sh, pats[i::of], all_paths(['/', 'a', '1', '.', '-', '+', ' ', 'e', 'é'], 5))
            vocab3 = element_vocab(ops=['', '?', '*', '+'], typs=['', 'int', 'float'], lits=['a', '1'])
            pats3 = [p for p in all_patterns(3, vocab3) if p.count('/') - (1 if p.endswith('/') and p != '/' else 0) == 3]
            run_space(sh, pats3[i::of], all_paths(['/', 'a', '1', '.', '-', 'e', ' '], 5))
    else:
        if tier == 'quick':
            random_cases(sh, rng, 150, 40)
            grammar_cases(sh, rng, 60)
            end_to_end(sh, rng, 200)
        else:
            random_cases(sh, rng, 4000, 60)
            grammar_cases(sh, rng, 800)
            end_to_end(sh, rng, 1500)


def replay(sh, case, spec):
    from clastic import Route
    if 'grammar' in case:
        try:
            Route(case['grammar'], _ep, slash_mode=case['mode'])
            sh.notes['outcome'] = 'accepted'
            if case.get('why'):
                sh.violation('C05/invalid-pattern-accepted', 'accepted %r' % case['grammar'], case)
        except Exception as e:
            sh.notes['outcome'] = 'raised %s: %s' % (type(e).__name__, e)
            from clastic.route import InvalidPattern
            if not case.get('why'):
                sh.violation('C05/valid-pattern-rejected', sh.notes['outcome'], case)
            elif not isinstance(e, InvalidPattern):
                sh.violation('C05/invalid-pattern-wrong-exception', sh.notes['outcome'], case)
        return
    pattern = case.get('pattern') or case.get('e2e')
    elements, branch = um.parse(pattern)
    impl = Matcher(pattern, case['mode'], case.get('how', 'app'))
    if case.get('path') is None:
        return
    judge(sh, pattern, elements, branch, case['mode'], case['path'], impl, how=case.get('how', 'app'))
    try:
        sh.notes['match_path'] = repr(impl(case['path']))
    except Exception as e:
        sh.notes['match_path'] = 'raised %r' % e
    sh.notes['regex'] = impl.broute.regex.pattern
    sh.notes['oracle'] = {'segments': um.segments(case['path'], branch, case['mode']),
                          'strict': um.match(elements, branch, case['mode'], case['path'], 'strict'),
                          'liberal': um.match(elements, branch, case['mode'], case['path'], 'liberal')}
