# -*- coding: utf-8 -*-
"""Shared driver for C01-C04: run configurations through di_eval and book the findings that
belong to the calling property."""
import os
import collections

from .. import di_eval, gen_di
from ..common import stable_hash


def cfg_features(cfg):
    """what a configuration exercises (for reach counters)"""
    feats = set()
    fs = [('ep', cfg['route']['endpoint']), ('rn', cfg['route'].get('render'))]
    for where, lst in [('app', m) for l in cfg['levels'] for m in l['mws']] + [('route', m) for m in cfg['route']['mws']]:
        for ph in ('request', 'endpoint', 'render'):
            if lst.get(ph):
                fs.append((ph, lst[ph]))
                feats.add('mw-%s-%s' % (where, ph))
    for role, f in fs:
        if not f:
            continue
        if role in ('ep', 'rn'):
            feats.add('form:' + f.get('form', 'function'))
        for p, k in f['params']:
            if p != 'next':
                feats.add('kind:%s:%s' % (k, {'ep': 'endpoint', 'rn': 'render'}.get(role, role)))
    if len(cfg['levels']) > 1:
        feats.add('nested:%d' % len(cfg['levels']))
    return feats


def drive(sh, prop, cfg, klass, requests=('hit', 'hit2', 'hit-slashes', 'hit-absent', 'hit-absent', 'hit-long', 'hit-text', 'hit-text-absent', 'mistyped', '404', '405'), shape_only=False, nontrivial=None,
          all_props=False, traces=None):
    stats = collections.Counter()
    try:
        findings, info = di_eval.evaluate(cfg, requests=requests, stats=stats, shape_only=shape_only, traces=traces)
    except Exception as e:     # the harness itself failed: never silently
        import traceback
        from ..common import REPO
        frames = traceback.extract_tb(e.__traceback__)
        if not any(fr.filename.startswith(os.path.join(REPO, 'clastic') + os.sep) or fr.filename.startswith('<sinter') for fr in frames):
            raise           # my own machinery broke (no frame of clastic involved): the run ends INCONCLUSIVE, not with a verdict
        sh.violation('%s/harness-error' % prop, 'harness raised %r\n%s' % (e, traceback.format_exc()[-1500:]),
                     {'cfg': cfg})
        return None
    model = info['model']
    sh.hit('model:' + model)
    if cfg.get('build_via_add') and not info['constructed']:
        sh.hit('rejected-by-add')
    sh.hit('constructed' if info['constructed'] else 'rejected')
    if info['constructed']:
        sh.hit('requests-on-accepted', info.get('exchanges', 0))
        if cfg.get('build_via_add'):
            sh.hit('accepted-with:built-via-add')
        if cfg['route'].get('render_via_factory'):
            sh.hit('accepted-with:render-from-factory')
        if cfg.get('nonunique_pair'):
            sh.hit('nonunique-type-on-two-levels')
        if cfg['route'].get('siblings'):
            sh.hit('sibling-routes-with-own-middlewares')
            if any(l.get('embed') == 'subapp-own-slashes' for l in cfg['levels']):
                sh.hit('embedded-keeping-own-slash-mode')
            if cfg.get('rebound_elsewhere'):
                sh.hit('innermost-application-also-mounted-elsewhere')
            if cfg['route'].get('sibling_provides'):
                sh.hit('sibling-middleware-provides-a-name-the-route-mentions')
        if cfg['route'].get('decoys'):
            sh.hit('decoy-routes-passed-over')
        if any(l.get('prefix_bindings') for l in cfg['levels']):
            sh.hit('prefix-bindings-injected')
        for f in cfg_features(cfg):
            sh.hit('accepted-with:' + f)
    for k, v in stats.items():
        sh.hit(k, v)
    nt = nontrivial if nontrivial is not None else (model != 'reject-any')
    sh.case(di_eval.short_cfg(cfg), nontrivial=nt, klass=klass + ':' + model,
            sample={'cfg': di_eval.short_cfg(cfg), 'model': model, 'issues': info['issues'],
                    'constructed': info['constructed'], 'error': info['error']})
    for f in findings:
        if f.prop == prop or all_props:
            sh.violation(f.key if f.prop == prop else '%s/via-%s' % (prop, f.key), f.what,
                         {'cfg': cfg, 'shape_only': shape_only, 'requests': list(requests)})
    return info


def replay_cfg(sh, prop, case):
    cfg = case['cfg']
    traces = []
    findings, info = di_eval.evaluate(cfg, requests=tuple(case.get('requests') or ('hit', 'hit2', 'hit-slashes', 'hit-absent', 'hit-absent', 'hit-long', 'hit-text', 'hit-text-absent', 'mistyped', '404', '405')),
                                      shape_only=case.get('shape_only', False), traces=traces)
    sh.notes['model'] = info
    sh.notes['cfg'] = di_eval.short_cfg(cfg)
    sh.notes['traces'] = [(k, t) for k, t in traces][:4]
    for f in findings:
        if f.prop == prop:
            sh.violation(f.key, f.what, case)
        else:
            sh.notes.setdefault('other-findings', []).append([f.prop, f.key, f.what])
