# -*- coding: utf-8 -*-
"""C16 - signed cookies: only intact, unexpired, server-signed data is ever presented.

Monitor: histories of requests by 1-3 clients against an application with a
SignedCookieMiddleware, a minimal client jar that parses Set-Cookie itself, a model of the data
each client stored, the set of every cookie value the server ever issued, and a virtual clock
installed where the middleware and its dependency read the time."""
import json
import base64
import re

from ..common import Rng
from .. import probe

PROPERTY = 'C16'
LEVEL = 'exploration'
RULE = ('cases are histories of 4-25 steps over {set key, delete key, read, clear, advance the clock to expiry-1 / expiry+1 / far, '
        'tamper (flip a character in the MAC / a key / a value, truncate, extend, swap payload and MAC between two issued cookies, '
        're-sign with another key, random bytes, non-ASCII, bad base64 in the MAC and in a value, missing ?/=/&, surrounding quotes), '
        'replay a stale cookie} for 1-3 clients; values nested / unicode / numbers / empty; expiry session / never / numeric; '
        'custom cookie and argument names; a history is non-trivial when it contains a tamper step or an expiry crossing; distinct '
        'by hash of the step list')
ASSUMPTIONS = ['the instant now == expiry is don\'t-care; validity is demanded at expiry-1 and emptiness at expiry+1 (O11)',
               'a tampered value may still be presented if its payload is byte-identical to one the server issued and unexpired '
               '(non-canonical base64 of the same MAC): never attacker-chosen content',
               'the client jar keeps sending a cookie past its Expires attribute (a stale or hostile client)']
REQUIRED_REACH = ['intact-roundtrip', 'nonempty-cookie-seen', 'expired-server-side', 'valid-before-expiry', 'tamper:flip-mac',
                  'tamper:flip-payload', 'tamper:truncate', 'tamper:extend', 'tamper:swap', 'tamper:other-key', 'tamper:other-server', 'server-with-a-secret-of-its-own', 'tamper:random',
                  'tamper:non-ascii', 'tamper:bad-b64-mac', 'tamper:bad-b64-value', 'tamper:missing-sep', 'tamper:quotes',
                  'tamper-rejected', 'two-cookies:steps', 'tampered-cookie-then-stored', 'schedules:first-requests', 'first-requests:both-cookies-presented', 'expiry:session', 'expiry:never', 'expiry:numeric', 'clients:3']
NSHARDS = 16
KEYS = ['a', 'user', 'k 1', 'é', 'e\u0301', '\u212b', '\u00c5', 'x=y&z', 'list', 'n', '0', 'long' * 10]
TAMPERS = ['flip-mac', 'flip-payload', 'truncate', 'extend', 'swap', 'other-key', 'other-server', 'random', 'non-ascii', 'bad-b64-mac',
           'bad-b64-value', 'missing-sep', 'quotes']


class Clock(object):
    def __init__(self, t=1700000000):
        self.t = t

    def time(self):
        return float(self.t)

    def __call__(self):
        return float(self.t)


def strict(v):
    """type-strict identity of JSON-compatible data (Python's == equates 1, True and 1.0)"""
    return json.dumps(v, sort_keys=True)


def rand_value(rng, depth=0):
    if rng.chance(0.2):
        return rng.pick([0, 1, True, False, 1.0, 0.0, -1, 2, 2.0, '1', 'true', None, [], {}, [1], [True], [1.0]])
    r = rng.randrange(10)
    if r == 0:
        return None
    if r == 1:
        return rng.randint(-1000, 10 ** 12)
    if r == 2:
        return rng.random() * 1000
    if r == 3:
        return rng.pick(['', 'plain', 'caf\xe9 ☃', 'a' * 300, '"quoted"', 'sp ace&=?', '日本語', '\x00\x01',
                         # text that a Unicode normalisation (NFC, NFKC) would respell: stored is stored
                         'Zoe\u0308', '\u212b \u2126 \u212a', '\uf900', '\u1112\u1161\u11ab', '\ufb01n \uff11', 'q\u0323\u0307 vs q\u0307\u0323',
                         '\U0001f600 \ud83d', ' lead and trail ', '\r\n\t', '\u2028\u2029', '\\u00e9 %C3%A9 &eacute;'])
    if r == 4:
        return rng.chance(0.5)
    if r == 5 and depth < 3:
        return [rand_value(rng, depth + 1) for _ in range(rng.randint(0, 3))]
    if r == 6 and depth < 3:
        return dict((rng.pick(['k', 'n', 'é', '', 'e\u0301', '\u00e9', '\u212b', '\u00c5', 'K', '\u212a']), rand_value(rng, depth + 1)) for _ in range(rng.randint(0, 3)))
    return rng.pick(['v1', 'v2', 'token-%d' % rng.randrange(1000)])


class World(object):
    def __init__(self, sh, rng, script=None):
        from clastic import Application, Route, Response
        from clastic.middleware import cookie as ck
        import secure_cookie.cookie as sc
        self.sh, self.rng = sh, rng
        self.clock = Clock(1700000000 + rng.pick([0, 0, 0.25, 0.5, 0.75, 0.999]))     # servers do not run on whole seconds
        self._restore = (ck.time, sc.time)
        ck.time = self.clock          # module attribute used as time.time()
        sc.time = self.clock          # bound name used as time()
        self.ck = ck
        self.sc_mod = sc
        self.expiry_kind = rng.pick(['session', 'never', 'numeric', 'numeric'])
        self.expiry = {'session': ck.SESSION, 'never': ck.NEVER, 'numeric': rng.pick([60, 3600, 5, 86400, 90000, 604800, 2592007, 0.5])}[self.expiry_kind]
        self.arg = rng.pick(['cookie', 'cookie', 'session', 'sess2'])
        self.cname = rng.pick([None, 'sid', 'my-cookie'])
        self.key = bytes(rng.getrandbits(8) for _ in range(20))
        self.keyless = rng.chance(0.3)      # no secret_key given: the middleware draws a secret of its own
        if self.keyless:
            sh.hit('server-with-a-secret-of-its-own')
            self.mw = ck.SignedCookieMiddleware(arg_name=self.arg, cookie_name=self.cname, expiry=self.expiry)
        else:
            self.mw = ck.SignedCookieMiddleware(arg_name=self.arg, cookie_name=self.cname, secret_key=self.key, expiry=self.expiry)
        self.sister = None
        self.cookie_name = self.mw.cookie_name
        sh.hit('expiry:' + self.expiry_kind)
        src = ('def ep(request, %s):\n    return _run(request, %s)\n' % (self.arg, self.arg))

        def _run(request, cookie):
            before = dict(cookie)
            op = json.loads(request.args.get('op', '["read"]'))
            if op[0] == 'set':
                cookie[op[1]] = op[2]
            elif op[0] == 'del':
                cookie.pop(op[1], None)
            elif op[0] == 'clear':
                cookie.clear()
            return Response(json.dumps({'before': before, 'after': dict(cookie)}), mimetype='application/json')
        ns = {'_run': _run}
        exec(src, ns)
        self.app = Application([Route('/c', ns['ep'])], middlewares=[self.mw])
        self._ep = ns['ep']
        self.clients = [{'jar': None, 'data': {}, 'expires': None} for _ in range(rng.randint(1, 3))]
        if len(self.clients) == 3:
            sh.hit('clients:3')
        self.issued = {}          # payload bytes -> (data, expires)
        self.issued_values = []   # raw values as issued
        self.steps = []
        self.dead = False

    def close(self):
        self.ck.time, self.sc_mod.time = self._restore

    # -- client side ------------------------------------------------------------------------------------------
    def send(self, ci, op, cookie_value):
        from urllib.parse import quote
        headers = {}
        if cookie_value is not None:
            headers['Cookie'] = '%s=%s' % (self.cookie_name, cookie_value)
        ex = probe.request(self.app, 'GET', '/c', 'op=' + quote(json.dumps(op)), headers=headers)
        return ex

    @staticmethod
    def payload_of(value):
        """the signed part of a cookie value; surrounding double quotes are transport decoration
        (Werkzeug quotes values with special characters; the middleware strips stray quotes)"""
        v = value
        if len(v) >= 2 and v[0] == '"' and v[-1] == '"':
            v = v[1:-1].replace('\\"', '"').replace('\\\\', '\\')
            v = re.sub(r'\\([0-3][0-7][0-7])', lambda m: chr(int(m.group(1), 8)), v)
        v = v.strip('"')
        if '?' not in v:
            return None
        return v.split('?', 1)[1]

    def absorb(self, ci, ex, new_data):
        """update jar, model and issued set from the response"""
        c = self.clients[ci]
        for sc in ex.header_all('Set-Cookie'):
            name, _, rest = sc.partition('=')
            if name.strip() != self.cookie_name:
                continue
            value = rest.split(';', 1)[0]
            c['jar'] = value
            exp = None
            if self.expiry_kind == 'numeric':
                exp = self.clock.t + self.expiry        # the moment the cookie falls due, exactly
            c['expires'] = exp
            p = self.payload_of(value)
            if p is not None:
                self.issued[p] = (json.loads(json.dumps(new_data)), exp)
            self.issued_values.append(value)
        c['data'] = new_data

    # -- oracle -----------------------------------------------------------------------------------------------------
    def judge(self, ci, op, sent, tamper, ex):
        sh = self.sh
        c = self.clients[ci]
        step = {'client': ci, 'op': op, 'tamper': tamper, 'sent': sent, 't': self.clock.t}
        self.steps.append(step)
        what = 'client %d %s%s at t=%.3f (expiry %s)' % (ci, op, ' with %s cookie' % tamper if tamper else '', self.clock.t, self.expiry_kind)

        def bad(key, text):
            sh.violation('C16/' + key, '%s: %s [cookie sent: %r]' % (what, text, (sent or '')[:160]), {'steps': self.steps})
            self.dead = True
        if ex.exc is not None:
            bad('exception-escaped' + (':malformed-cookie' if tamper else ''), '%s escaped' % probe.safe_repr(ex.exc)[:200])
            return None
        if ex.status != 200:
            bad('error-response' + (':malformed-cookie' if tamper else ''), 'status %s %r' % (ex.status, ex.body[:200]))
            return None
        seen = json.loads(ex.body.decode('utf8'))['before']
        now = self.clock.t
        if seen:
            sh.hit('nonempty-cookie-seen')
        if tamper is None and sent is not None:
            exp = c['expires']
            if exp is None or now <= exp - 1:
                if strict(seen) != strict(c['data']):
                    bad('intact-cookie-not-presented', 'endpoint saw %r, the client stored %r' % (seen, c['data']))
                    return None
                sh.hit('intact-roundtrip')
                if exp is not None:
                    sh.hit('valid-before-expiry')
            elif now > exp:
                # past its expiry, by however little: never presented (before it, the cookie format's whole-second
                # granularity may drop it up to a second early: left open)
                if seen != {}:
                    bad('expired-cookie-presented', 'endpoint saw %r although the cookie fell due at %.3f' % (seen, exp))
                    return None
                sh.hit('expired-server-side')
        elif sent is None:
            if seen != {}:
                bad('data-without-cookie', 'endpoint saw %r although no cookie was sent' % (seen,))
                return None
        else:
            # anything else: empty, or exactly a payload this server issued (and not expired)
            if seen == {}:
                sh.hit('tamper-rejected')
            else:
                p = self.payload_of(sent)
                hit = self.issued.get(p) if p is not None else None
                if hit is None or strict(hit[0]) != strict(seen) or (hit[1] is not None and now > hit[1]):
                    bad('forged-cookie-presented', 'endpoint saw %r from a cookie the server never issued in this form' % (seen,))
                    return None
                sh.hit('tamper-accepted-same-payload')
        return seen

    # -- steps ----------------------------------------------------------------------------------------------------------
    def step_normal(self, ci):
        rng = self.rng
        c = self.clients[ci]
        r = rng.randrange(10)
        if r < 5:
            op = ['set', rng.pick(KEYS), rand_value(rng)]
        elif r < 6:
            op = ['del', rng.pick(KEYS)]
        elif r < 7:
            op = ['clear']
        else:
            op = ['read']
        sent = c['jar']
        ex = self.send(ci, op, sent)
        seen = self.judge(ci, op, sent, None, ex)
        if seen is None:
            return
        self.finish(ci, op, ex, seen)

    def finish(self, ci, op, ex, seen):
        """what the handler did to the cookie it was given, and what the client keeps of it"""
        new = dict(seen)
        if op[0] == 'set':
            new[op[1]] = json.loads(json.dumps(op[2]))
        elif op[0] == 'del':
            new.pop(op[1], None)
        elif op[0] == 'clear':
            new = {}
        after = json.loads(ex.body.decode('utf8'))['after']
        if strict(after) != strict(new):
            self.sh.violation('C16/cookie-object-misbehaves', 'after %r the cookie holds %r, expected %r' % (op, after, new), {'steps': self.steps})
            self.dead = True
            return
        if ex.header_all('Set-Cookie'):
            self.absorb(ci, ex, new)
        else:
            # nothing re-issued: the client keeps its cookie; what it stores is what the cookie says
            if new != seen and op[0] != 'read':
                self.sh.violation('C16/modified-cookie-not-saved', 'after %r no Set-Cookie was sent' % (op,), {'steps': self.steps})
                self.dead = True

    def tamper_value(self, kind, value, ci):
        rng = self.rng
        raw = value
        quoted = len(raw) >= 2 and raw[0] == '"' and raw[-1] == '"'
        v = raw[1:-1] if quoted else raw
        mac, sep, payload = v.partition('?')
        if kind == 'flip-mac' and mac:
            i = rng.randrange(len(mac))
            repl = rng.pick([x for x in 'ABCDEFabcdef0123+/' if x != mac[i]])
            out = mac[:i] + repl + mac[i + 1:] + sep + payload
        elif kind == 'flip-payload' and payload:
            i = rng.randrange(len(payload))
            repl = rng.pick([x for x in 'ABCabc012' if x != payload[i]])
            out = mac + sep + payload[:i] + repl + payload[i + 1:]
        elif kind == 'truncate':
            out = v[:rng.randrange(max(1, len(v)))]
        elif kind == 'extend':
            out = v + rng.pick(['x', '&evil=InRydWUi', '=', '&', '?', 'AAAA'])
        elif kind == 'swap':
            others = [x for x in self.issued_values if x != raw]
            if not others:
                return None
            o = rng.pick(others)
            o = o[1:-1] if (len(o) >= 2 and o[0] == '"') else o
            omac, _, opayload = o.partition('?')
            out = (mac + '?' + opayload) if rng.chance(0.5) else (omac + '?' + payload)
        elif kind == 'other-key':
            forged = self.ck.JSONCookie({'admin': True, 'user': 'root'}, secret_key=b'attacker-key')
            out = forged.serialize().decode('ascii')
        elif kind == 'other-server':
            # a cookie minted by another application in this process whose middleware was given no key either
            # (every server has a secret of its own)
            from clastic import Application, Route
            if self.sister is None:
                self.sister = Application([Route('/c', self._ep)], middlewares=[
                    self.ck.SignedCookieMiddleware(arg_name=self.arg, cookie_name=self.cname, expiry=self.expiry)])
            from urllib.parse import quote
            exs = probe.request(self.sister, 'GET', '/c', 'op=' + quote(json.dumps(['set', 'admin', True])))
            out = None
            for sc in exs.header_all('Set-Cookie'):
                name, _, rest = sc.partition('=')
                if name.strip() == self.cookie_name:
                    out = rest.split(';', 1)[0]
            if out is None:
                return None
        elif kind == 'random':
            out = ''.join(rng.pick('abcXYZ019+/=?&%') for _ in range(rng.randint(1, 60)))
        elif kind == 'non-ascii':
            out = rng.pick(['é=1?é=2', mac + '?ké=' + 'InYi', 'ÿþ', mac + '?' + payload + 'é', '☃?☃=☃'])
            out = out.encode('utf8').decode('latin-1')
        elif kind == 'bad-b64-mac':
            out = rng.pick(['A', 'AAAAA', '!!!!', mac[:-1], mac + 'A', '====']) + '?' + payload
        elif kind == 'bad-b64-value':
            out = mac + '?' + rng.pick(['k=A', 'k=!!!', 'k=AAAAA', 'k=', 'a=InYi&k=%%%'])
        elif kind == 'missing-sep':
            out = rng.pick([mac + payload, mac + '?' + payload.replace('=', '', 1), mac + '?' + payload.replace('&', '', 1),
                            '?', '?=', '&', mac + '?', '?' + payload])
        elif kind == 'quotes':
            out = rng.pick(['"' + v, v + '"', '""' + v + '""', '"' + v[:5]])
        else:
            return None
        return out

    def step_tamper(self, ci):
        rng = self.rng
        c = self.clients[ci]
        base = c['jar'] or (self.issued_values and rng.pick(self.issued_values)) or None
        if base is None:
            return self.step_normal(ci)
        kind = rng.pick(TAMPERS)
        value = self.tamper_value(kind, base, ci)
        if value is None or value == base:
            return self.step_normal(ci)
        self.sh.hit('tamper:' + kind)
        if rng.chance(0.3):
            # the handler stores something in the very request that carried the bad cookie: the client then owns a
            # fresh, valid cookie holding (what the server made of the bad one, normally nothing, plus) that
            op = ['set', rng.pick(KEYS), rand_value(rng)]
            ex = self.send(ci, op, value)
            seen = self.judge(ci, op, value, kind, ex)
            if seen is not None:
                self.sh.hit('tampered-cookie-then-stored')
                self.finish(ci, op, ex, seen)
            return
        ex = self.send(ci, ['read'], value)
        self.judge(ci, ['read'], value, kind, ex)
        # the client keeps its own jar: a later intact request must still work

    def step_clock(self):
        rng = self.rng
        exps = [c['expires'] for c in self.clients if c['expires']]
        if exps and rng.chance(0.8):
            target = rng.pick(exps) + rng.pick([-1.5, -1, 0.05, 0.2, 0.75, 1, 1, 30])
            if target > self.clock.t:
                self.clock.t = target
        else:
            # ... up to decades: 'never' and 'session' cookies have no date that could pass (2038 included)
            self.clock.t += rng.pick([1, 7, 100, 10 ** 6, 0.3, 2.5, 4 * 10 ** 8, 2 * 10 ** 9])
        self.steps.append({'clock': self.clock.t})

    def step_replay_stale(self, ci):
        if len(self.issued_values) < 2:
            return self.step_normal(ci)
        value = self.rng.pick(self.issued_values[:-1])
        ex = self.send(ci, ['read'], value)
        self.judge(ci, ['read'], value, 'replay-of-issued', ex)


def run_history(sh, rng, length):
    w = World(sh, rng)
    try:
        nontrivial = False
        for _ in range(length):
            if w.dead:
                break
            ci = rng.randrange(len(w.clients))
            r = rng.random()
            if r < 0.5:
                w.step_normal(ci)
            elif r < 0.8:
                w.step_tamper(ci)
                nontrivial = True
            elif r < 0.93:
                w.step_clock()
                nontrivial = nontrivial or w.expiry_kind == 'numeric'
            else:
                w.step_replay_stale(ci)
        sh.case({'steps': w.steps, 'expiry': w.expiry_kind, 'arg': w.arg}, nontrivial=nontrivial,
                klass='history:%s:%d-clients' % (w.expiry_kind, len(w.clients)),
                sample={'expiry': w.expiry_kind, 'cookie_name': w.cookie_name, 'steps': w.steps[:8]})
        return w
    finally:
        w.close()


def first_requests(sh, spec):
    """The very first requests of a server's life arrive together.  Every single-preemption schedule of two clients that
    store something at a middleware that was given no key (so it has to come up with one, whenever it does that): afterwards
    each client's own cookie must present exactly what that client stored."""
    import os
    from urllib.parse import quote
    from clastic import Application, Route, Response
    from clastic.middleware import cookie as ck
    from .. import sched
    from ..common import REPO
    roots = (os.path.join(REPO, 'clastic') + os.sep, '<sinter generated')

    def ep(request, cookie):
        before = dict(cookie)
        who = request.args.get('who')
        if who:
            cookie['who'] = who
        return Response(json.dumps({'before': before}), mimetype='application/json')

    def build():
        return Application([Route('/c', ep)], middlewares=[ck.SignedCookieMiddleware(expiry=spec.get('expiry', ck.SESSION))])

    def job(app, who, cookie=None):
        def run():
            h = {'Cookie': 'clastic_cookie=' + cookie} if cookie else {}
            return probe.request(app, 'GET', '/c', ('who=' + quote(who)) if who else '', headers=h)
        return run

    def cookie_of(ex):
        for sc in ex.header_all('Set-Cookie'):
            name, _, rest = sc.partition('=')
            return rest.split(';', 1)[0]
        return None
    n_points = sched.count_points(job(build(), 'A'), roots)
    sh.notes['first-requests'] = 'yield points of one storing request on a fresh application: %d' % n_points
    for k in range(1, n_points + 1):
        app = build()
        s = sched.Scheduler(2, sched.preempt_once(k), roots)
        res = s.run([job(app, 'alice'), job(app, 'bob')])
        case = {'first_requests': True, 'k': k, 'expiry': spec.get('expiry')}
        sh.case(case, nontrivial=bool(s.switches), klass='first-requests')
        if s.broken:
            sh.hit('watchdog-fired')
            continue
        sh.hit('schedules:first-requests')
        for (tag, val), who in zip(res, ('alice', 'bob')):
            if tag != 'ok' or val.exc is not None or val.status != 200:
                sh.violation('C16/error-response', 'first requests, preemption after %d steps: %s got %s %s'
                             % (k, who, tag, probe.safe_repr(val.exc if tag == 'ok' else val)[:200]), case)
                break
            c = cookie_of(val)
            ex = job(app, None, c)()
            seen = json.loads(ex.body.decode('utf8'))['before'] if ex.exc is None and ex.status == 200 else None
            if seen != {'who': who}:
                sh.violation('C16/intact-cookie-not-presented', 'two clients stored something in the first two, overlapping requests of a keyless '
                             'middleware (preemption after %d steps, switches %r); %s then sent its cookie back and the endpoint saw %r'
                             % (k, s.switches[:3], who, seen), case)
                break
        else:
            sh.hit('first-requests:both-cookies-presented')


def two_cookies(sh, rng, n):
    """Two signed cookies on one application (a session and an admin cookie, say), whose names may begin alike: each keeps
    its own data, whichever order the middlewares are in, also when both are saved by one response."""
    from urllib.parse import quote
    from clastic import Application, Route, Response
    from clastic.middleware import cookie as ck
    for i in range(n):
        names = rng.pick([('cookie', 'cookie_admin'), ('cookie_admin', 'cookie'), ('sess', 'sess2'), ('a', 'b'), ('user', 'user_prefs')])
        cnames = rng.pick([(None, None), (None, None), ('sid', 'sid-admin'), ('sid-admin', 'sid'), ('c', 'cc')])
        expiry = rng.pick([ck.SESSION, ck.NEVER, 3600, 5])
        mws = [ck.SignedCookieMiddleware(arg_name=names[k], cookie_name=cnames[k], secret_key=b'k%d' % k * 10, expiry=expiry) for k in (0, 1)]
        src = 'def ep(request, %s, %s):\n    return _run(request, %s, %s)\n' % (names[0], names[1], names[0], names[1])

        def _run(request, c0, c1):
            before = [dict(c0), dict(c1)]
            op = json.loads(request.args.get('op', '[]'))
            for which, key, value in op:
                (c0, c1)[which][key] = value
            return Response(json.dumps({'before': before}), mimetype='application/json')
        ns = {'_run': _run}
        exec(src, ns)
        app = Application([Route('/c', ns['ep'])], middlewares=mws)
        jar, model = {}, [{}, {}]
        case = {'two_cookies': True, 'names': names, 'cookie_names': cnames, 'expiry': str(expiry)}
        steps = []
        for step in range(rng.randint(2, 6)):
            op = [[w, rng.pick(KEYS), rand_value(rng)] for w in rng.pick([[0], [1], [0, 1], [1, 0], []])]
            headers = {'Cookie': '; '.join('%s=%s' % kv for kv in sorted(jar.items()))} if jar else {}
            ex = probe.request(app, 'GET', '/c', 'op=' + quote(json.dumps(op)), headers=headers)
            steps.append(op)
            if ex.exc is not None or ex.status != 200:
                sh.violation('C16/error-response', 'two cookie middlewares %r: status %s %s' % (names, ex.status, probe.safe_repr(ex.exc)[:200] if ex.exc else ''),
                             dict(case, steps=steps))
                break
            seen = json.loads(ex.body.decode('utf8'))['before']
            if strict(seen) != strict(model):
                sh.violation('C16/intact-cookie-not-presented', 'two cookie middlewares (arguments %r, cookie names %r, expiry %s): after %r the endpoint saw %r, '
                             'the client stored %r' % (names, [m.cookie_name for m in mws], expiry, steps[:-1], seen, model), dict(case, steps=steps))
                break
            for w, key, value in op:
                model[w][key] = json.loads(json.dumps(value))
            for sc in ex.header_all('Set-Cookie'):
                name, _, rest = sc.partition('=')
                jar[name.strip()] = rest.split(';', 1)[0]
            sh.hit('two-cookies:steps')
        sh.case(case, nontrivial=True, klass='two-cookies')


def plan(tier, seed):
    specs = [{'label': 'rand-%d' % i, 'n': 190 if tier == 'quick' else 19000, 'timeout': 7200} for i in range(NSHARDS)]
    specs.append({'label': 'first-requests-session', 'first_requests': True, 'timeout': 7200})
    specs.append({'label': 'first-requests-numeric', 'first_requests': True, 'expiry': 3600, 'timeout': 7200})
    return specs


def run_shard(sh, spec):
    if spec.get('first_requests'):
        return first_requests(sh, spec)
    two_cookies(sh, Rng(spec['seed'], PROPERTY, spec['label'], 'two-cookies'), max(3, spec['n'] // 12))
    for i in range(spec['n']):
        rng = Rng(spec['seed'], PROPERTY, spec['label'], i)
        w = run_history(sh, rng, rng.randint(4, 25))
        if w.dead and sh.violations:
            v = sh.violations[-1]
            v['case'] = {'shard': spec['label'], 'index': i, 'seed': spec['seed'], 'steps': v['case'].get('steps')}


def replay(sh, case, spec):
    if case.get('first_requests'):
        return first_requests(sh, {'expiry': case.get('expiry')})
    if case.get('two_cookies'):
        return two_cookies(sh, Rng(0, 'replay'), 60)
    rng = Rng(case['seed'], PROPERTY, case['shard'], case['index'])
    w = run_history(sh, rng, rng.randint(4, 25))
    sh.notes['steps'] = w.steps
