# -*- coding: utf-8 -*-
"""C14 - static serving never leaves its roots and serves files faithfully.

Monitors: (1) every response of a StaticApplication over a generated directory tree is compared
with the bytes of the file an independent path mapping selects (every generated file embeds its own
path and a nonce, so a disclosed file identifies itself); (2) an `open` audit hook records every file
opened below the generated tree while a static request is being served - anything outside the search
directories is a violation; (3) fault enumeration: the k-th filesystem call made while serving fails
with ENOENT/EACCES/EIO/EISDIR - the answer must stay a non-breaking 403/404 (an overlapping second
static application is still consulted), never a 500 or an escaping exception; (4) conditional requests."""
import os
import mimetypes
import zlib
import sys
import errno
import shutil
import tempfile
import itertools
import posixpath
from email.utils import parsedate_to_datetime, format_datetime
import datetime

from ..common import Rng
from .. import probe

PROPERTY = 'C14'
LEVEL = 'fault_enumeration'
RULE = ('cases are (static configuration, request path[, fault point]): a generated tree (nested directories; text, binary and empty; whole-second and fractional mtimes; siblings whose names begin with a root\'s name; '
        'files; names with dots, spaces, non-ASCII, a leading-dot and a leading-".." name; secrets beside and above the roots) '
        'served from one or two search paths under a mount prefix in each slash mode; request paths = every sequence of <=3 '
        '(quick) / <=4 (thorough) segments from {file and directory names, ".", "..", "", "...", pieces of the absolute root and '
        'secret paths} sent as raw PATH_INFO plus random mutations of valid paths; for a sample of requests every k-th filesystem '
        'call x errno fault; a case is non-trivial when the request reaches the static route; enumerated cases are pairwise distinct '
        'by construction, random ones hashed')
EXHAUSTIVE = {'quick': 'all segment sequences of length <=3 over the 17-segment vocabulary, per configuration; all (k, errno) fault points of the sampled requests',
              'thorough': 'all segment sequences of length <=4; all fault points of a larger request sample'}
ASSUMPTIONS = ['faults are injected into filesystem calls made until the application callable returns its iterable (O8)',
               'os.path.isfile never raises: its fault is a False result', 'the tree is symlink-free',
               'a contained but non-canonical path (".", inner "..", repeated slashes) may be served or refused; if served it must be the mapped file']
# which filesystem calls the implementation makes is its own business: only "some fault was injected" is required,
# the per-call counters (fault:open, fault:getmtime, ...) are reported in the evidence
REQUIRED_REACH = ['content-type-compared-with-the-guess', 'served-with-client-caching-off', 'served-and-compared', 'canonical-file-served', 'escape:dotdot-refused', 'escape:absolute-refused',
                  'escape:secret-path-pieces-refused', 'noncanonical-contained', 'fault-injected', 'fault-on-every-call-about-one-file', 'clean-request-after-fault', 'clean-request-after-fault:name-in-two-search-paths', 'fallthrough-to-second-app', '304-observed', 'first-search-path-wins',
                  'audit-opens-seen', 'root-spelled:trailing-slash', 'root-spelled:dot-segment', 'root-spelled:dotdot-detour', 'root-spelled:double-slash',
                  'root-spelled:relative', 'names-that-normalisation-would-rewrite', 'conditional-on-directory', 'conditional-on-missing', 'mode:redirect', 'mode:rewrite', 'mode:strict']
NSHARDS = 16
ERRNOS = [errno.ENOENT, errno.EACCES, errno.EIO, errno.EISDIR]

_state = {'serving': False, 'opens': [], 'base': None}
_audit_installed = [False]


def install_audit():
    if _audit_installed[0]:
        return
    _audit_installed[0] = True

    def hook(event, args):
        if event == 'open' and _state['serving'] and _state['base']:
            p = args[0]
            if isinstance(p, bytes):
                p = os.fsdecode(p)
            if isinstance(p, str) and os.path.abspath(p).startswith(_state['base']):
                _state['opens'].append(os.path.abspath(p))
    sys.addaudithook(hook)


class Tree(object):
    """the generated world: base/{above-secret.txt, area/{secret.txt, beside/secret2.txt, root1/..., root2/...}}"""

    def __init__(self, rng):
        self.base = os.path.realpath(tempfile.mkdtemp(prefix='verif-c14-'))
        self.nonces = {}
        self.files = {}      # abspath -> bytes
        self.area = os.path.join(self.base, 'area')
        self.root1 = os.path.join(self.area, 'root1')
        self.root2 = os.path.join(self.area, 'root2')
        n = [0]

        def put(path, kind='text', mtime=None):
            n[0] += 1
            nonce = 'NONCE%d-%08x' % (n[0], rng.getrandbits(32))
            os.makedirs(os.path.dirname(path), exist_ok=True)
            if kind == 'empty':
                data = b''
            elif kind == 'binary':
                data = bytes(range(256)) * 3 + ('|%s|%s|' % (path, nonce)).encode('utf8') + b'\x00\xff'
            elif isinstance(kind, tuple):       # ('sized-text' | 'sized-binary', n): a file of exactly n bytes
                unit = (('%s %s\n' % (path, nonce)).encode('utf8')) if kind[0] == 'sized-text' else (bytes(range(256)) + nonce.encode())
                data = (unit * (kind[1] // len(unit) + 1))[:kind[1]]
                if len(data) >= len(nonce):
                    data = data[:len(data) - len(nonce)] + nonce.encode()
            elif kind == 'crlf':
                data = ('line1\r\nline2\rline3\n%s %s\r\n' % (path, nonce)).encode('utf8') + b'caf\xe9 \xff\xfe\r'
            else:
                data = ('file %s nonce %s\n' % (path, nonce)).encode('utf8') * 3
            with open(path, 'wb') as f:
                f.write(data)
            # whole-second and fractional modification times (.25, .5, .75, .99)
            t = mtime or (1500000000 + n[0] * 1000 + [0, 0.25, 0.5, 0.75, 0.99][n[0] % 5])
            os.utime(path, (t, t))
            self.files[path] = data
            self.nonces[path] = nonce.encode()
        put(os.path.join(self.base, 'above-secret.txt'))
        put(os.path.join(self.area, 'secret.txt'))
        put(os.path.join(self.area, 'beside', 'secret2.txt'))
        # siblings whose names merely *begin* with the root's name
        put(os.path.join(self.area, 'root1-private', 'key.txt'))
        put(os.path.join(self.area, 'root1.bak'))
        for rel, kind in [('a.txt', 'text'), ('b.bin', 'binary'), ('empty', 'empty'), ('sub/c.html', 'text'),
                          ('sub/deep/d.txt', 'text'), ('sp ace.txt', 'text'), ('é.txt', 'text'), ('.hidden', 'text'),
                          ('..data', 'text'), ('noext', 'binary'), ('sub/x.y.z', 'text'), ('both.txt', 'text'), ('crlf.txt', 'crlf'),
                          ('sub/page.html', 'crlf'), ('style.css', 'crlf'),
                          # names that Unicode normalisation would rewrite, next to their composed namesakes (other bytes)
                          ('re\u0301sume\u0301.txt', 'text'), ('r\u00e9sum\u00e9.txt', 'text'), ('units/10\u212b.dat', 'binary'),
                          ('units/10\u00c5.dat', 'binary'), ('u\u0308bersicht/menu\u0308.html', 'text'), ('cafe\u0301.txt', 'text'),
                          ('5\u2126.dat', 'text'),
                          # '..' inside a name is not a parent reference
                          # no extension to guess a type from (the content is sniffed), in sizes around the sniffing buffers
                          ('LICENSE', ('sized-text', 2500)), ('blob', ('sized-binary', 1536)), ('README', ('sized-text', 4096)),
                          ('NOTICE', ('sized-text', 4097)), ('data/dump', ('sized-binary', 70000)), ('data/K', ('sized-text', 1024)),
                          ('data/K1', ('sized-text', 1025)),
                          ('release..notes.txt', 'text'), ('v1..2/readme.txt', 'text'), ('sub/..settings', 'text'), ('sub/.../deep.bin', 'binary'),
                          ('sub/trailing..', 'text'), ('a..', 'text'), ('...', 'text'),
                          # several extensions: the type is guessed from the whole name (the last one is only an encoding)
                          ('arch/backup.tar.gz', 'binary'), ('arch/notes.txt.gz', 'binary'), ('arch/blob.gz', 'binary'), ('arch/page.html.bz2', 'binary'),
                          ('arch/data.json.xz', 'binary'), ('arch/x.tar.bz2', 'binary'), ('arch/style.css.gz', 'binary'), ('arch/plain.gz.txt', 'text')]:
            put(os.path.join(self.root1, rel), kind)
        # files written just now, and one whose clock is ahead: their Last-Modified is as good as any other
        import time as _time
        now = _time.time()
        for rel, t in [('fresh.txt', now), ('fresh/half-second-old.css', now - 0.5), ('ahead.txt', now + 3600), ('fresh/just.bin', now - 0.01)]:
            put(os.path.join(self.root1, rel), 'text', mtime=t)
        # a directory in the first root whose name is a regular file's in the second
        put(os.path.join(self.root1, 'shadow', 'inner.txt'))
        put(os.path.join(self.root1, 'guide.d', 'x', 'deep.txt'))
        for rel, kind in [('both.txt', 'text'), ('only2.txt', 'text'), ('sub/c.html', 'text'), ('sub/only2.css', 'text'),
                          ('shadow', 'text'), ('guide.d/x', 'binary'),
                          ('caf\u00e9.txt', 'text'), ('5\u03a9.dat', 'text')]:
            put(os.path.join(self.root2, rel), kind)
        os.makedirs(os.path.join(self.root1, 'emptydir'), exist_ok=True)
        self.secret_paths = [p for p in self.files if not p.startswith(self.root1 + os.sep) and not p.startswith(self.root2 + os.sep)]

    def cleanup(self):
        shutil.rmtree(self.base, ignore_errors=True)


def rel_files(tree, roots):
    """relative path -> (abspath, bytes) with the first search directory winning"""
    out = {}
    for root in roots:
        for p, data in tree.files.items():
            if p.startswith(root + os.sep):
                rel = p[len(root) + 1:]
                out.setdefault(rel, (p, data))
    return out


def classify(segs, served, root_mounted=False):
    """-> (kind, target_rel): kind in 'canonical' | 'escape-absolute' | 'escape-dotdot' | 'contained' | 'dotdot-name'"""
    segs = list(segs)
    if root_mounted:            # Werkzeug folds slashes repeated at the very start of PATH_INFO (DESIGN.md O13)
        while segs and segs[0] == '':
            segs.pop(0)
    rel = '/'.join(segs)
    if rel.startswith('/'):
        return 'escape-absolute', None
    norm = posixpath.normpath(rel) if rel else '.'
    if norm == '..' or norm.startswith('../'):
        return 'escape-dotdot', None
    if norm.startswith('/'):
        return 'escape-absolute', None
    canonical = bool(segs) and all(s not in ('', '.', '..') for s in segs)
    if norm.split('/')[0].startswith('..'):
        return 'dotdot-name', norm
    if canonical:
        return 'canonical', norm
    return 'contained', norm


def spell(root, how):
    """the same directory, written the way configuration files write it"""
    if how == 'trailing-slash':
        return root + '/'
    if how == 'double-slash':
        head, tail = os.path.split(root)
        return head + '//' + tail
    if how == 'dot-segment':
        head, tail = os.path.split(root)
        return head + '/./' + tail + '/.'
    if how == 'dotdot-detour':
        head, tail = os.path.split(root)
        return os.path.join(head, tail, '..', tail)
    if how == 'relative':
        return os.path.relpath(root)
    return root


class Config(object):
    def __init__(self, tree, roots, prefix, mode, two_apps=False, spelling='plain', cache='default', below=None):
        from clastic import Application
        from clastic import StaticApplication as _SA
        self.tree, self.roots, self.prefix, self.mode, self.two_apps = tree, roots, prefix, mode, two_apps
        self.spelling, self.light = spelling, (spelling != 'plain' or cache != 'default')
        # client caching: the default, switched off (0 / None: files are still served as faithfully, dated as they are;
        # only the conditional-request clause is about caching), or another period
        self.cache = cache
        self.caching = cache == 'default' or bool(cache)

        def StaticApplication(sp):
            return _SA(sp) if cache == 'default' else _SA(sp, cache_timeout=cache)
        given = [spell(r, spelling) for r in roots]
        if two_apps:
            entries = [(prefix, StaticApplication(given[0])), (prefix, StaticApplication(given[1]))]
        else:
            entries = [(prefix, StaticApplication(list(given) if len(given) > 1 else given[0]))]
        self.below = below
        if below:
            # the static application sits in an application that is itself mounted under a prefix (two levels deep)
            self.app = Application([(below, Application(entries, slash_mode=mode))], slash_mode=mode)
            self.prefix = prefix = below.rstrip('/') + '/' + prefix.lstrip('/')
            self.light = True
        else:
            self.app = Application(entries, slash_mode=mode)
        self.served = rel_files(tree, roots)
        self.label = '%d-root%s %s %s%s' % (len(roots), '-2apps' if two_apps else '', prefix, mode,
                                            '' if spelling == 'plain' else ' root-spelled:' + spelling) + \
            ('' if cache == 'default' else ' cache_timeout=%r' % (cache,))

    def raw_path(self, segs):
        return self.prefix.rstrip('/') + '/' + '/'.join(segs)

    def desc(self):
        return {'roots': len(self.roots), 'root_order': [1 if r == self.tree.root1 else 2 for r in self.roots], 'two_apps': self.two_apps,
                'prefix': self.prefix if not self.below else self.prefix[len(self.below.rstrip('/')):], 'mode': self.mode, 'spelling': self.spelling, 'cache': self.cache, 'below': self.below}


def serve(cfg, segs, headers=None, method='GET', faults=None):
    _state['opens'] = []
    _state['serving'] = True
    app = cfg.app
    if faults is not None:
        def app(environ, start_response, _app=cfg.app):
            try:
                return _app(environ, start_response)
            finally:
                faults.active = False      # O8: streaming the body afterwards is outside the property
    try:
        ex = probe.request(app, method, cfg.raw_path(segs), headers=headers or {}, raw_path=False)
    finally:
        _state['serving'] = False
    return ex, list(_state['opens'])


def strict_reaches(cfg, segs):
    """in strict mode only single slashes match the static route"""
    return all(s != '' for s in segs)


def judge(sh, cfg, segs, record=None, faulted=False):
    """one request without faults.  Returns (exchange, kind)."""
    tree = cfg.tree
    ex, opens = serve(cfg, segs)
    kind, target = classify(segs, cfg.served, cfg.prefix.rstrip('/') == '')
    case = {'cfg': cfg.label, 'segs': segs}
    sh.hit('mode:' + cfg.mode)
    if cfg.spelling != 'plain':
        sh.hit('root-spelled:' + cfg.spelling)

    def bad(key, what):
        sh.violation('C14/' + key, '[%s] GET %r -> %s' % (cfg.label, cfg.raw_path(segs), what),
                     dict(cfg.desc(), segs=segs))

    if opens:
        sh.hit('audit-opens-seen')
    outside = [p for p in opens if not any(p.startswith(r + os.sep) for r in cfg.roots)]
    if outside:
        bad('opened-file-outside-roots', 'opened %r' % outside)
        return ex, kind
    if ex.exc is not None:
        bad('exception-escaped', '%s escaped' % probe.safe_repr(ex.exc)[:200])
        return ex, kind
    body = ex.body
    for p in tree.secret_paths:
        if tree.nonces[p] in body:
            bad('secret-disclosed', 'status %s, body contains the nonce of %s' % (ex.status, p))
            return ex, kind
    if ex.status not in (200, 304, 403, 404):
        bad('unexpected-status', 'status %s %r' % (ex.status, body[:120]))
        return ex, kind
    if kind.startswith('escape'):
        sh.hit('escape:dotdot-refused' if kind == 'escape-dotdot' else 'escape:absolute-refused')
        if any(s in ('area', 'secret.txt', 'beside', 'secret2.txt', 'above-secret.txt', 'root1-private', 'root1.bak') for s in segs):
            sh.hit('escape:secret-path-pieces-refused')
        if ex.status == 200:
            bad('escaping-path-served', '200 with %d bytes' % len(body))
        return ex, kind
    hit = cfg.served.get(target)
    if ex.status == 200:
        if hit is None:
            bad('served-nonexistent', '200 %r although %r is not a regular file under the roots' % (body[:80], target))
            return ex, kind
        path, data = hit
        if body != data:
            which = [p for p, n in tree.nonces.items() if n in body]
            bad('wrong-bytes', 'body (%d bytes) is not %s (%d bytes); it carries the nonce of %r' % (len(body), path, len(data), which))
            return ex, kind
        sh.hit('served-and-compared')
        if target in ('both.txt', 'sub/c.html') and len(cfg.roots) > 1:
            sh.hit('first-search-path-wins')
        cl, lm, ct = ex.header('Content-Length'), ex.header('Last-Modified'), ex.header('Content-Type')
        if cl is None or int(cl) != len(data):
            bad('content-length', 'Content-Length %r for %d bytes' % (cl, len(data)))
        elif not lm:
            bad('last-modified-missing', 'no Last-Modified')
        elif not ct:
            bad('content-type-missing', 'no Content-Type')
        elif mimetypes.guess_type(path)[0] and ct.split(';')[0].strip().lower() != mimetypes.guess_type(path)[0]:
            # "a guessed Content-Type": where the name tells the type (the standard table knows it), that is the guess -
            # for this file, whatever was served before it
            bad('content-type-not-the-guess', 'Content-Type %r, the name says %s' % (ct, mimetypes.guess_type(path)[0]))
        else:
            if mimetypes.guess_type(path)[0]:
                sh.hit('content-type-compared-with-the-guess')
            try:
                served_time = parsedate_to_datetime(lm).replace(tzinfo=None)
                real = datetime.datetime.utcfromtimestamp(int(os.path.getmtime(path)))
                if abs((served_time - real).total_seconds()) > 1:
                    bad('last-modified-wrong', 'Last-Modified %r, file time %s' % (lm, real))
            except Exception as e:
                bad('last-modified-unparsable', '%r (%s)' % (lm, e))
    elif kind == 'canonical' and hit is not None:
        if cfg.mode == 'strict' and not strict_reaches(cfg, segs):
            pass
        else:
            bad('file-not-served', 'status %s for the regular file %s at its relative path' % (ex.status, hit[0]))
        return ex, kind
    if ex.status in (403, 404) and target is not None:
        # nothing to serve here - whatever validators the client sends along (a directory has a modification time too)
        is_dir = any(os.path.isdir(os.path.join(r, target)) for r in cfg.roots)
        if is_dir or zlib.crc32(repr(segs).encode()) % 23 == 0:
            exc_, _ = serve(cfg, segs, headers={'If-Modified-Since': 'Fri, 01 Jan 2100 00:00:00 GMT'})
            if exc_.exc is not None or exc_.status != ex.status:
                bad('conditional-request-on-a-non-file', 'status %s without validators, %s with If-Modified-Since in the future%s'
                    % (ex.status, exc_.status, ' (a directory)' if is_dir else ''))
                return ex, kind
            sh.hit('conditional-on-directory' if is_dir else 'conditional-on-missing')
    if kind == 'canonical' and hit is not None:
        sh.hit('canonical-file-served')
    elif kind == 'contained':
        sh.hit('noncanonical-contained')
    return ex, kind


# ---- conditional requests -------------------------------------------------------------------------------------------
def judge_conditional(sh, cfg, segs):
    ex, kind = judge(sh, cfg, segs)
    import unicodedata
    if any(unicodedata.normalize(f, x) != x for x in segs for f in ('NFC', 'NFKC')) and ex.status == 200:
        sh.hit('names-that-normalisation-would-rewrite')
    if ex.status != 200 or ex.exc is not None:
        return
    if not cfg.caching:
        sh.hit('served-with-client-caching-off')
        return
    lm = ex.header('Last-Modified')
    when = parsedate_to_datetime(lm)
    for label, delta, want in (('at', 0, 304), ('after', 3600, 304), ('before', -3600, 200)):
        hdr = format_datetime(when + datetime.timedelta(seconds=delta), usegmt=True)
        ex2, _ = serve(cfg, segs, headers={'If-Modified-Since': hdr})
        case = dict(cfg.desc(), segs=segs, ims=label)
        if ex2.exc is not None or ex2.status != want:
            sh.violation('C14/conditional-request', '[%s] GET %r If-Modified-Since %s the served time -> %s (expected %s)'
                         % (cfg.label, cfg.raw_path(segs), label, ex2.status if ex2.exc is None else probe.safe_repr(ex2.exc), want), case)
        elif want == 304:
            sh.hit('304-observed')
            if ex2.body:
                sh.violation('C14/conditional-request', '[%s] 304 with a %d byte body' % (cfg.label, len(ex2.body)), case)
        elif ex2.body != ex.body:
            sh.violation('C14/conditional-request', '[%s] conditional 200 differs from the plain one' % cfg.label, case)


# ---- fault injection -------------------------------------------------------------------------------------------------------
class Faults(object):
    """module-local wrappers around the filesystem calls clastic.static makes"""

    def __init__(self):
        import builtins
        import clastic.static as st
        self.st = st
        self.calls = []
        self.paths = []
        self.fail_at = None        # (k, errno) or ('path', errno, path)
        self.fired = None
        self.active = False
        real_isfile = os.path.isfile
        faults = self

        def tick(site, path):
            if not faults.active:
                return None
            faults.calls.append(site)
            if path is not None and path not in faults.paths:
                faults.paths.append(path)
            if faults.fail_at and faults.fail_at[0] == 'path':
                # every call about one file fails for the length of the request (a permission flip, a dying disk)
                if path is not None and path == faults.fail_at[2]:
                    faults.fired = 'path:' + site
                    return faults.fail_at[1]
                return None
            if faults.fail_at and len(faults.calls) == faults.fail_at[0]:
                faults.fired = site
                return faults.fail_at[1]
            return None

        class FileProxy(object):
            def __init__(self, f):
                self._f = f

            def read(self, *a):
                e = tick('read', None)
                if e:
                    raise OSError(e, os.strerror(e))
                return self._f.read(*a)

            def __getattr__(self, name):
                return getattr(self._f, name)

            def fileno(self):
                return self._f.fileno()

            def __iter__(self):
                return iter(self._f)

        def f_open(path, *a, **kw):
            e = tick('open', path)
            if e:
                raise OSError(e, os.strerror(e), path)
            return FileProxy(builtins.open(path, *a, **kw))

        def f_isfile(path):
            e = tick('isfile', path)
            if e:
                return False
            return real_isfile(path)

        class PathProxy(object):
            def __getattr__(self, name):
                return getattr(os.path, name)

            def getmtime(self, path):
                e = tick('getmtime', path)
                if e:
                    raise OSError(e, os.strerror(e), path)
                return os.path.getmtime(path)

            def getsize(self, path):
                e = tick('getsize', path)
                if e:
                    raise OSError(e, os.strerror(e), path)
                return os.path.getsize(path)

        class OsProxy(object):
            path = PathProxy()

            def __getattr__(self, name):
                return getattr(os, name)

            def stat(self, *a, **kw):
                e = tick('stat', None)
                if e:
                    raise OSError(e, os.strerror(e))
                return os.stat(*a, **kw)

            def fstat(self, *a, **kw):
                e = tick('fstat', None)
                if e:
                    raise OSError(e, os.strerror(e))
                return os.fstat(*a, **kw)
        st.open = f_open
        st.isfile = f_isfile
        st.os = OsProxy()

    def remove(self):
        st = self.st
        try:
            del st.open
        except Exception:
            pass
        st.isfile = os.path.isfile
        st.os = os


def judge_faults(sh, cfg, segs, faults, headers=None):
    """enumerate every (k-th filesystem call, errno) for this request"""
    faults.active, faults.calls, faults.fail_at, faults.fired = True, [], None, None
    try:
        ex0, _ = serve(cfg, segs, headers=headers, faults=faults)
    finally:
        faults.active = False
    sites = list(faults.calls)
    paths = list(faults.paths)
    faults.paths = []
    kind, target = classify(segs, cfg.served, cfg.prefix.rstrip('/') == '')
    n_eval = 0
    points = [(k, en) for k in range(1, len(sites) + 1) for en in ERRNOS]
    points += [('path', en, p) for p in paths for en in ERRNOS[:2]]
    for point in points:
        k, en = point[0], point[1]
        for _ in (0,):
            faults.active, faults.calls, faults.fail_at, faults.fired = True, [], point, None
            try:
                ex, _ = serve(cfg, segs, headers=headers, faults=faults)
            finally:
                faults.active = False
            n_eval += 1
            if not faults.fired:
                continue
            sh.hit('fault-injected')
            sh.hit('fault:' + faults.fired)
            if k == 'path':
                sh.hit('fault-on-every-call-about-one-file')
            case = dict(cfg.desc(), segs=segs, fault=[k, en], headers=headers)
            what = '[%s] GET %r with %s failing (%s) at filesystem call %s of %r' % (
                cfg.label, cfg.raw_path(segs), faults.fired, errno.errorcode[en],
                k if k != 'path' else 'about ' + os.path.relpath(point[2], cfg.tree.base), sites)
            if ex.exc is not None:
                sh.violation('C14/fault-escapes:' + faults.fired, '%s -> %s escaped' % (what, probe.safe_repr(ex.exc)[:200]), case)
                continue
            if ex.status not in (200, 304, 403, 404):
                sh.violation('C14/fault-becomes-%s:%s' % (ex.status, faults.fired), '%s -> status %s %r' % (what, ex.status, ex.body[:100]), case)
                continue
            if ex.status == 200:
                ok_bodies = [cfg.tree.files[os.path.join(r, target)] for r in cfg.roots
                             if target and os.path.join(r, target) in cfg.tree.files]
                if ex.body not in ok_bodies:
                    sh.violation('C14/fault-wrong-bytes:' + faults.fired, '%s -> 200 with foreign bytes %r' % (what, ex.body[:80]), case)
                    continue
            # a clean request right after the fault: nothing of the fault may stick to the application
            ex_after, _ = serve(cfg, segs, headers=headers)
            if ex_after.exc is not None or (ex_after.status, ex_after.body) != (ex0.status, ex0.body):
                sh.violation('C14/fault-leaves-a-trace:' + faults.fired,
                             '%s -> the next, fault-free request answers %s (%d bytes) instead of %s (%d bytes)'
                             % (what, ex_after.status, len(ex_after.body), ex0.status, len(ex0.body)), case)
                continue
            sh.hit('clean-request-after-fault')
            if len(cfg.roots) > 1 and not cfg.two_apps and target in ('both.txt', 'sub/c.html'):
                sh.hit('clean-request-after-fault:name-in-two-search-paths')
            if cfg.two_apps and target and ex0.status == 200:
                alt = os.path.join(cfg.roots[1], target)
                first = os.path.join(cfg.roots[0], target)
                if alt in cfg.tree.files and first in cfg.tree.files:
                    # the first application failed (or not); the second one has the file: a breaking error would hide it
                    if ex.status != 200:
                        sh.violation('C14/fault-is-breaking:' + faults.fired,
                                     '%s -> status %s although the second static application has the file' % (what, ex.status), case)
                        continue
                    if ex.body == cfg.tree.files[alt] and ex.body != cfg.tree.files[first]:
                        sh.hit('fallthrough-to-second-app')
    return n_eval, len(sites)


# ---- workload ---------------------------------------------------------------------------------------------------------------------
def vocabulary(tree):
    pieces = [p for p in tree.root1.split(os.sep) if p][-3:]      # e.g. verif-c14-xxxx, area, root1
    return ['a.txt', 'sub', 'c.html', 'deep', 'both.txt', 'sp ace.txt', '..data', '.hidden', '.', '..', '', '...',
            'secret.txt', 'beside', 'secret2.txt', 'above-secret.txt', 'root1-private', 'key.txt', 'root1.bak',
            # what is left of doubly percent-encoded traversal after the server decoded the path once: plain names
            '%2e%2e', '%2e%2e%2fsecret.txt', '..%2fsecret.txt', '%2e%2e%2f%2e%2e%2fabove-secret.txt'] + pieces[:2]


def configs(tree):
    out = []
    for mode in ('redirect', 'rewrite', 'strict'):
        out.append(Config(tree, [tree.root1], '/static/', mode))
    out.append(Config(tree, [tree.root1, tree.root2], '/s', 'redirect'))
    out.append(Config(tree, [tree.root2, tree.root1], '/', 'rewrite'))
    out.append(Config(tree, [tree.root1, tree.root2], '/assets/v1/', 'redirect', two_apps=True))
    # the search directory written in other, equivalent ways (a slice of the enumeration each)
    out.append(Config(tree, [tree.root1], '/static/', 'redirect', spelling='trailing-slash'))
    out.append(Config(tree, [tree.root1], '/files/', 'rewrite', spelling='dot-segment'))
    out.append(Config(tree, [tree.root1, tree.root2], '/s', 'redirect', spelling='dotdot-detour'))
    out.append(Config(tree, [tree.root2, tree.root1], '/d/', 'strict', spelling='double-slash'))
    out.append(Config(tree, [tree.root1], '/rel/', 'redirect', spelling='relative'))
    out.append(Config(tree, [tree.root1], '/nc0/', 'redirect', cache=0))
    out.append(Config(tree, [tree.root1, tree.root2], '/static/', 'redirect', below='/site/'))
    out.append(Config(tree, [tree.root1], '/s', 'rewrite', below='/a/b'))
    out.append(Config(tree, [tree.root2, tree.root1], '/ncn', 'rewrite', cache=None))
    out.append(Config(tree, [tree.root1], '/c60/', 'strict', cache=60))
    return out


def plan(tier, seed):
    return [{'label': 'enum-%d' % i, 'index': i, 'of': NSHARDS, 'depth': 3 if tier == 'quick' else 4,
             'random': 300 if tier == 'quick' else 20000, 'fault_requests': 12 if tier == 'quick' else 150, 'timeout': 7200}
            for i in range(NSHARDS)]


def mutate(rng, segs):
    segs = list(segs)
    op = rng.randrange(8)
    pos = rng.randrange(len(segs) + 1)
    if op == 0:
        segs.insert(pos, '..')
    elif op == 1:
        segs.insert(pos, '')
    elif op == 2:
        segs.insert(pos, '.')
    elif op == 3 and segs:
        segs[pos % len(segs)] = segs[pos % len(segs)] + rng.pick(['\x00', '%00', '/', '\\', '~', ' ', '%2e%2e', '..'])
    elif op == 4:
        segs = ['..'] * rng.randint(1, 6) + segs
    elif op == 5:
        segs = [''] + [p for p in rng.pick([os.sep.join(['etc', 'passwd']), 'proc/self/environ']).split('/')]
    elif op == 6 and segs:
        segs[pos % len(segs)] = segs[pos % len(segs)].upper()
    else:
        segs = segs + ['..', rng.pick(['secret.txt', 'beside', 'root2', 'area'])]
    return [s.replace('/', '_') if s not in ('',) else s for s in segs]


def run_shard(sh, spec):
    install_audit()
    rng = Rng(spec['seed'], PROPERTY, spec['label'])
    tree = Tree(rng)
    _state['base'] = tree.base
    faults = None
    # the process serves from another working directory than the one it had when clastic was imported (a daemon that
    # changes directory at start-up): a relative search path means what it means *now*
    cwd0 = os.getcwd()
    os.chdir(tree.area)
    sh.hit('working-directory-changed-since-import')
    try:
        cfgs = configs(tree)
        vocab = vocabulary(tree)
        seqs = [()]
        for n in range(1, spec['depth'] + 1):
            seqs.extend(itertools.product(vocab, repeat=n))
        n_eval = n_nt = 0
        # every shard takes a slice of the enumerated space, for every configuration
        for ci, cfg in enumerate(cfgs):
            for j, segs in enumerate(seqs):
                if (j + ci) % spec['of'] != spec['index'] or (cfg.light and (j // spec['of']) % 4):
                    continue
                ex, kind = judge(sh, cfg, list(segs))
                n_eval += 1
                n_nt += ex.status != 404 or kind != 'canonical'
                if j % 4001 == 0:
                    sh.sample('enumerated-%s-%d' % (cfg.label, j), {'cfg': cfg.label, 'path': cfg.raw_path(list(segs)), 'status': ex.status, 'class': kind})
        sh.count_enumerated(n_eval, n_nt)
        valid = [rel.split('/') for rel in sorted(cfgs[3].served)]
        for _ in range(spec['random']):
            cfg = rng.pick(cfgs)
            segs = rng.pick(valid)
            for _ in range(rng.randint(0, 3)):
                segs = mutate(rng, segs)
            ex, kind = judge(sh, cfg, segs)
            sh.case({'cfg': cfg.label, 'segs': segs}, nontrivial=True, klass='random:' + kind,
                    sample={'cfg': cfg.label, 'path': cfg.raw_path(segs), 'status': ex.status})
        # every served file at its canonical path + conditional requests
        for cfg in cfgs:
            for rel in sorted(cfg.served):
                judge_conditional(sh, cfg, rel.split('/'))
                sh.case({'cfg': cfg.label, 'canonical': rel}, nontrivial=True, klass='canonical+conditional')
        # fault enumeration
        faults = Faults()
        pool = [(cfg, rel.split('/')) for cfg in cfgs for rel in sorted(cfg.served)]
        pool += [(cfg, ['missing.txt']) for cfg in cfgs] + [(cfg, ['sub']) for cfg in cfgs] + [(cfg, ['..', 'secret.txt']) for cfg in cfgs]
        rng.shuffle(pool)
        two = [(c, s) for c, s in pool if c.two_apps and '/'.join(s) in ('both.txt', 'sub/c.html')]
        # one application searching two directories that both hold the name: a fault on the first copy must not stick
        multi = [(c, s) for c, s in pool if len(c.roots) > 1 and not c.two_apps and '/'.join(s) in ('both.txt', 'sub/c.html')]
        chosen = two[:2] + multi[:2] + pool[:spec['fault_requests']]
        for cfg, segs in chosen:
            for hdrs in (None, {'If-Modified-Since': 'Thu, 01 Jan 2015 00:00:00 GMT'}):
                n, sites = judge_faults(sh, cfg, segs, faults, headers=hdrs)
                sh.count_enumerated(n, n)
                sh.sample('faults-%s-%s' % (cfg.label, '/'.join(segs)), {'cfg': cfg.label, 'path': cfg.raw_path(segs),
                                                                         'filesystem_calls': sites, 'fault_points': n})
    finally:
        os.chdir(cwd0)
        if faults is not None:
            faults.remove()
        _state['base'] = None
        tree.cleanup()


def replay(sh, case, spec):
    install_audit()
    rng = Rng(0, 'replay')
    tree = Tree(rng)
    _state['base'] = tree.base
    faults = None
    cwd0 = os.getcwd()
    os.chdir(tree.area)
    try:
        roots = [tree.root1] if case['roots'] == 1 else [tree.root1, tree.root2]
        if case.get('root_order'):
            roots = [tree.root1 if k == 1 else tree.root2 for k in case['root_order']]
        cfg = Config(tree, roots, case['prefix'], case['mode'], two_apps=case.get('two_apps', False), spelling=case.get('spelling', 'plain'), cache=case.get('cache', 'default'), below=case.get('below'))
        if case.get('fault'):
            faults = Faults()
            judge_faults(sh, cfg, case['segs'], faults, headers=case.get('headers'))
        elif case.get('ims'):
            judge_conditional(sh, cfg, case['segs'])
        else:
            ex, kind = judge(sh, cfg, case['segs'])
            sh.notes['exchange'] = ex.brief()
            sh.notes['class'] = kind
    finally:
        os.chdir(cwd0)
        if faults is not None:
            faults.remove()
        _state['base'] = None
        tree.cleanup()
