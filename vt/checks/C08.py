# -*- coding: utf-8 -*-
"""C08 - every request gets a response; uncaught failures become the handler's 500.

Monitor: the (environ, start_response) interaction recorded at the client boundary for scripted
misbehaviour of application code at every position of a middleware stack, under five error
handler kinds; plus histories in which a fixed probe set and a structural fingerprint of the
application are re-taken after every failing request."""
import json

from ..common import Rng
from .. import probe, spies

PROPERTY = 'C08'
LEVEL = 'exploration'
RULE = ('cases are (error handler kind, route with 0-3 scripted middlewares and with/without renderer, position of the '
        'deviating function [endpoint, render, request/endpoint/render function of middleware k, before or after '
        'next], action [return Response/str/None/number/dict/list, raise one of 14 built-in exception shapes with '
        'ASCII / non-ASCII / 1 MB / __str__-raising / __repr__-raising / lone-surrogate text, raise or return any '
        'HTTPException class of clastic.errors breaking or not], Accept header, method); a case is non-trivial when '
        'the deviating function actually ran; distinct by hash of the case; histories re-probe the application '
        'after every failure')
ASSUMPTIONS = ['only Exception subclasses (SystemExit/KeyboardInterrupt/GeneratorExit are outside "any Exception")',
               'a render_error that returns a non-response is a mis-configured handler and is not judged (O8)']
REQUIRED_REACH = ['broken-renderer:several-exception-types', 'handler:default', 'handler:contextual', 'handler:reraise', 'handler:broken-render-error', 'handler:render-error-raises-http',
                  'handler:render-error-returns-other', 'outcome:500-from-exception', 'outcome:500-from-nonresponse',
                  'outcome:http-raised', 'outcome:http-returned', 'outcome:reraised-original', 'fallback-compared',
                  'history:probes-compared', 'deviation-ran', 'msg:surrogate', 'msg:surrogate-high', 'msg:surrogate-low', 'error-answer-headers-checked', 'msg:badstr', 'msg:badrepr', 'msg:huge']
NSHARDS = 16
HANDLERS = ['default', 'contextual', 'reraise', 'broken-render-error', 'render-error-raises-http', 'render-error-returns-other',
            'reraise+broken-render-error', 'default+debug-flag', 'broken-render-error+debug-flag', 'render-error-returns-other+debug-flag']
ACCEPTS = [None, 'text/html', 'application/json', 'application/xml', '*/*', 'garbage;;q=', 'text/plain',
           'text/html;q=0.1, application/json',
           # long real-world headers: size and number of ranges must not matter
           'text/html,application/xhtml+xml,application/xml;q=0.9,image/avif,image/webp,image/apng,*/*;q=0.8,application/signed-exchange;v=b3;q=0.7',
           'application/vnd.api+json, application/vnd.github.v3+json;q=0.95, application/vnd.verif.v2+json;q=0.9, application/hal+json;q=0.8, application/json;q=0.6',
           'application/vnd.verif.t0+json;q=0.9, application/vnd.verif.t1+json;q=0.8, application/vnd.verif.t2+json;q=0.7, application/vnd.verif.t3+json;q=0.6, application/vnd.verif.t4+json;q=0.5, application/vnd.verif.t5+json;q=0.4, application/vnd.verif.t6+json;q=0.3, application/vnd.verif.t7+json;q=0.2, application/vnd.verif.t8+json;q=0.1, application/vnd.verif.t9+json;q=0.9, application/vnd.verif.t10+json;q=0.8, application/vnd.verif.t11+json;q=0.7, application/vnd.verif.t12+json;q=0.6, application/vnd.verif.t13+json;q=0.5, application/vnd.verif.t14+json;q=0.4, application/vnd.verif.t15+json;q=0.3, application/vnd.verif.t16+json;q=0.2, application/vnd.verif.t17+json;q=0.1, application/vnd.verif.t18+json;q=0.9, application/vnd.verif.t19+json;q=0.8, application/xml;q=0.05',
           'image/x-fmt0, image/x-fmt1, image/x-fmt2, image/x-fmt3, image/x-fmt4, image/x-fmt5, image/x-fmt6, image/x-fmt7, image/x-fmt8, image/x-fmt9, image/x-fmt10, image/x-fmt11, image/x-fmt12, image/x-fmt13, image/x-fmt14, image/x-fmt15, image/x-fmt16, image/x-fmt17, image/x-fmt18, image/x-fmt19, image/x-fmt20, image/x-fmt21, image/x-fmt22, image/x-fmt23, image/x-fmt24, image/x-fmt25, image/x-fmt26, image/x-fmt27, image/x-fmt28, image/x-fmt29, image/x-fmt30, image/x-fmt31, image/x-fmt32, image/x-fmt33, image/x-fmt34, image/x-fmt35, image/x-fmt36, image/x-fmt37, image/x-fmt38, image/x-fmt39, text/html;q=0.3',
           'text/plain;q=0.4, audio/x-0;q=0.9, audio/x-1;q=0.9, audio/x-2;q=0.9, audio/x-3;q=0.9, audio/x-4;q=0.9, audio/x-5;q=0.9, audio/x-6;q=0.9, audio/x-7;q=0.9, audio/x-8;q=0.9, audio/x-9;q=0.9, audio/x-10;q=0.9, audio/x-11;q=0.9, audio/x-12;q=0.9, audio/x-13;q=0.9, audio/x-14;q=0.9, audio/x-15;q=0.9, audio/x-16;q=0.9, audio/x-17;q=0.9, audio/x-18;q=0.9, audio/x-19;q=0.9, audio/x-20;q=0.9, audio/x-21;q=0.9, audio/x-22;q=0.9, audio/x-23;q=0.9, audio/x-24;q=0.9, audio/x-25;q=0.9, audio/x-26;q=0.9, audio/x-27;q=0.9, audio/x-28;q=0.9, audio/x-29;q=0.9, audio/x-30;q=0.9, audio/x-31;q=0.9, audio/x-32;q=0.9, audio/x-33;q=0.9, audio/x-34;q=0.9, audio/x-35;q=0.9, audio/x-36;q=0.9, audio/x-37;q=0.9, audio/x-38;q=0.9, audio/x-39;q=0.9, audio/x-40;q=0.9, audio/x-41;q=0.9, audio/x-42;q=0.9, audio/x-43;q=0.9, audio/x-44;q=0.9, audio/x-45;q=0.9, audio/x-46;q=0.9, audio/x-47;q=0.9, audio/x-48;q=0.9, audio/x-49;q=0.9, audio/x-50;q=0.9, audio/x-51;q=0.9, audio/x-52;q=0.9, audio/x-53;q=0.9, audio/x-54;q=0.9, audio/x-55;q=0.9, audio/x-56;q=0.9, audio/x-57;q=0.9, audio/x-58;q=0.9, audio/x-59;q=0.9, audio/x-60;q=0.9, audio/x-61;q=0.9, audio/x-62;q=0.9, audio/x-63;q=0.9, audio/x-64;q=0.9, audio/x-65;q=0.9, audio/x-66;q=0.9, audio/x-67;q=0.9, audio/x-68;q=0.9, audio/x-69;q=0.9']
RETURNS = ['Response', 'BaseResponse', 'str', 'None', 'int', 'dict', 'list', 'bytes', 'float']
EXC_KINDS = ['ValueError', 'KeyError', 'TypeError', 'RuntimeError', 'ZeroDivisionError', 'AttributeError', 'IndexError',
             'OSError', 'UnicodeDecodeError', 'AssertionError', 'LookupError', 'Custom', 'NoArgs', 'NonStrArgs',
             'NameError', 'StopIteration', 'RecursionError', 'NotImplementedError']
MSG_KINDS = ['ascii', 'nonascii', 'huge', 'badstr', 'badrepr', 'surrogate', 'surrogate-high', 'surrogate-low', 'surrogate-pair-reversed', 'markup', 'empty', 'multiline', 'crlf', 'control']
POSITIONS = ['ep', 'rn'] + ['m%d.%s.%s' % (k, ph, when) for k in range(3) for ph in ('request', 'endpoint', 'render')
                            for when in ('before', 'after')]


class CustomError(Exception):
    pass


class BadStr(Exception):
    def __str__(self):
        raise RuntimeError('__str__ broke')


class BadRepr(Exception):
    def __repr__(self):
        raise RuntimeError('__repr__ broke')

    def __str__(self):
        raise RuntimeError('__str__ broke too')


def http_classes():
    from clastic import errors
    out = []
    for k, v in sorted(vars(errors).items()):
        try:
            if issubclass(v, errors.HTTPException):
                out.append(k)
        except TypeError:
            pass
    return out


def message(kind):
    return {'ascii': 'plain failure', 'nonascii': 'caf\xe9 ☃ 日本', 'huge': 'x' * (1 << 20),
            'surrogate': 'bad \udc80 name', 'surrogate-high': 'bad token \ud83d in input', 'surrogate-low': '\udc00',
            'surrogate-pair-reversed': 'x \udfff\ud800 y', 'markup': '<b>&"\'{x}{#y}', 'empty': '',
            'multiline': 'upstream said:\n  line 1\n  line 2\n', 'crlf': 'bad header\r\nX-Injected: 1\r\n\r\nbody',
            'control': 'bell\x07 nul\x00 esc\x1b[31m tab\t vt\x0b'}.get(kind, 'msg')


def make_exception(exc_kind, msg_kind):
    if msg_kind == 'badstr':
        return BadStr('hidden')
    if msg_kind == 'badrepr':
        return BadRepr('hidden')
    msg = message(msg_kind)
    if exc_kind == 'OSError':
        return OSError(13, msg)
    if exc_kind == 'UnicodeDecodeError':
        return UnicodeDecodeError('utf-8', b'\xff' + msg[:20].encode('utf8', 'replace'), 0, 1, msg[:50])
    if exc_kind == 'Custom':
        return CustomError(msg)
    if exc_kind == 'NoArgs':
        return Exception()
    if exc_kind == 'NonStrArgs':
        return ValueError(b'\xff\xfe', object, {'k': msg[:30]})
    return getattr(__import__('builtins'), exc_kind)(msg)


def perform(act, tr):
    """carry out a scripted action inside application code"""
    from clastic import Response, errors
    tr['ran'] = True
    kind = act[0]
    if kind == 'return':
        v = act[1]
        from werkzeug.wrappers import BaseResponse
        return {'Response': lambda: Response('scripted-response', mimetype='text/plain'),
                # the bare base class is a response too (clastic re-exports it)
                'BaseResponse': lambda: BaseResponse('bare response', status=202, mimetype='text/plain'),
                'str': lambda: 'just text', 'None': lambda: None, 'int': lambda: 42, 'float': lambda: 1.5,
                'dict': lambda: {'k': 'v'}, 'list': lambda: [1, 2], 'bytes': lambda: b'raw'}[v]()
    if kind == 'raise':
        e = make_exception(act[1], act[2])
        tr['raised'] = e
        raise e
    cls = getattr(errors, act[1])
    kw = {'is_breaking': act[2]}
    if act[3]:
        kw['detail'] = 'scripted detail'
    if act[1] == 'MethodNotAllowed' and not act[3]:
        # the one error class whose first argument is not the detail: the methods it allows, as the documentation spells it
        e = cls(['GET', 'HEAD'], **kw)
    else:
        e = cls(**kw)
    tr['raised'] = e
    if kind == 'raise_http':
        raise e
    return e


def script(fid):
    tok = probe.current_token()
    if isinstance(tok, dict) and tok.get('where') == fid:
        return tok['act']
    return None


def make_mw(k):
    from clastic import Middleware
    mid = 'm%d' % k

    def hook(fid, next):
        tr = probe.current_trace()
        a = script(fid + '.before')
        if a:
            return perform(a, tr)
        r = next()
        a = script(fid + '.after')
        if a:
            return perform(a, tr)
        return r

    class _MW(Middleware):
        def request(self, next):
            return hook(mid + '.request', next)

        def endpoint(self, next):
            return hook(mid + '.endpoint', next)

        def render(self, next, context):
            return hook(mid + '.render', next)
    _MW.__name__ = 'Scripted%d' % k
    return _MW()


def ep():
    a = script('ep')
    if a:
        return perform(a, probe.current_trace())
    return {'ctx': 1}


def rn(context):
    from clastic import Response
    a = script('rn')
    if a:
        return perform(a, probe.current_trace())
    return Response('rendered:%s' % json.dumps(context, sort_keys=True, default=repr), mimetype='text/plain')


_broken_kinds_seen = set()


def make_handler(kind):
    from clastic import errors
    if kind == 'default':
        return errors.ErrorHandler()
    if kind == 'contextual':
        return errors.ContextualErrorHandler()
    if kind == 'reraise':
        return errors.ErrorHandler(reraise_uncaught=True)
    if kind == 'render-error-raises-http':
        class MissingTemplate(errors.ErrorHandler):
            def render_error(self, request, _error):
                raise errors.NotFound('no template for error pages')      # fails with an HTTP error of its own
        return MissingTemplate()
    if kind in ('broken-render-error', 'reraise+broken-render-error'):
        class BrokenRender(errors.ErrorHandler):
            def render_error(self, request, _error):
                # a broken renderer fails in whatever way its bug makes it fail (decided by the request, so that a case
                # replays the same way)
                import zlib
                kinds = [RuntimeError, AttributeError, TypeError, KeyError, LookupError, NameError, ValueError, OSError, AssertionError,
                         ZeroDivisionError, IndexError, NotImplementedError, UnicodeError, StopIteration, MemoryError, RecursionError]
                k = kinds[zlib.crc32(('%s %s %s' % (request.method, request.path, request.headers.get('Accept'))).encode()) % len(kinds)]
                _broken_kinds_seen.add(k.__name__)
                raise k('render_error itself failed')
        # re-raising is about *uncaught exceptions of the application*; a renderer that fails while an HTTP error is being
        # rendered still falls back to the default rendering
        return BrokenRender(reraise_uncaught=(kind == 'reraise+broken-render-error'))

    class Replacing(errors.ErrorHandler):
        def render_error(self, request, _error):
            return errors.Conflict('replaced by render_error')
    return Replacing()


def build_app(kind):
    from clastic import Application, Route, Response
    mws = [make_mw(k) for k in range(3)]
    routes = []
    for depth in range(4):
        # a sibling on the same path that only admits a method the workload never sends: it is passed over (and leaves its
        # method set in the dispatch state) before the route under test runs
        routes.append(Route('/d%d/norender' % depth, lambda: Response('patched'), methods=['PATCH']))
        routes.append(Route('/d%d/spyrender' % depth, lambda: Response('patched'), methods=['PATCH']))
        routes.append(Route('/d%d/norender' % depth, ep, middlewares=mws[:depth]))
        routes.append(Route('/d%d/spyrender' % depth, ep, rn, middlewares=mws[:depth]))
        # ... and a later route on the same path that would answer: only an error *marked* non-breaking lets the request
        # get that far - never an uncaught exception, a non-Response result or an ordinary HTTP error
        # (on every second depth: on the others a deferred error meets the catch-all route, with the PATCH-only sibling's
        # method set on record)
        if depth % 2 == 0:
            routes.append(Route('/d%d/norender' % depth, lambda: Response('later sibling', status=299)))
            routes.append(Route('/d%d/spyrender' % depth, lambda: Response('later sibling', status=299)))
    routes.append(Route('/ok', lambda: Response('fine', mimetype='text/plain')))
    routes.append(Route('/item/<x>', lambda x: Response('item %s' % x, mimetype='text/plain'), methods=['GET']))
    # '+debug-flag': the application is told debug=True *and* given its handler explicitly - the handler is what counts
    if kind.endswith('+debug-flag'):
        return Application(routes, error_handler=make_handler(kind[:-len('+debug-flag')]), debug=True)
    return Application(routes, error_handler=make_handler(kind))


def gen_case(rng):
    depth = rng.randrange(4)
    rk = rng.pick(['norender', 'spyrender'])
    pos = [p for p in POSITIONS if p in ('ep', 'rn') or int(p[1]) < depth]
    if rk == 'norender':
        pos = [p for p in pos if p != 'rn' and '.render.' not in p] or ['ep']
    where = rng.pick(pos)
    r = rng.random()
    if r < 0.18:
        act = ['return', rng.pick(RETURNS)]
    elif r < 0.6:
        act = ['raise', rng.pick(EXC_KINDS), rng.pick(MSG_KINDS)]
    else:
        act = [rng.pick(['raise_http', 'return_http']), rng.pick(HTTP_CLASSES), rng.chance(0.6), rng.chance(0.5)]
    return {'handler': rng.pick(HANDLERS), 'path': '/d%d/%s' % (depth, rk), 'where': where, 'act': act,
            'accept': rng.pick(ACCEPTS), 'method': rng.pick(['GET', 'GET', 'GET', 'POST', 'HEAD', 'PUT']), 'upload': rng.chance(0.3)}


HTTP_CLASSES = []
_apps = {}


def app_for(kind):
    if kind not in _apps:
        _apps[kind] = build_app(kind)
    return _apps[kind]


def send(app, case):
    headers = {}
    if case.get('accept') is not None:
        headers['Accept'] = case['accept']
    tr = spies.new_trace()
    tr['ran'] = False
    tok = {'where': case['where'], 'act': case['act']}
    if case.get('upload') and case['method'] in ('POST', 'PUT'):
        # the failing request carries a form with an uploaded file
        headers['Content-Type'] = 'multipart/form-data; boundary=vtc08boundary'
        body = (b'--vtc08boundary\r\nContent-Disposition: form-data; name="note"\r\n\r\nhello\r\n'
                b'--vtc08boundary\r\nContent-Disposition: form-data; name="attachment"; filename="report.txt"\r\n'
                b'Content-Type: text/plain\r\n\r\nfile body\r\n--vtc08boundary--\r\n')
        ex = probe.request(app, case['method'], case['path'], headers=headers, body=body, token=tok, trace=tr)
        return ex, tr
    ex = probe.request(app, case['method'], case['path'], headers=headers, token=tok, trace=tr)
    return ex, tr


def expected(case):
    if case['handler'].endswith('+debug-flag'):
        return expected(dict(case, handler=case['handler'][:-len('+debug-flag')]))
    return _expected(case)


def _expected(case):
    """-> ('status', code) | ('escape-original',) | ('escape-typeerror',)"""
    from clastic import errors
    act, where, handler = case['act'], case['where'], case['handler']
    norender = case['path'].endswith('norender')
    if act[0] in ('raise_http', 'return_http') and not act[2] and int(case['path'][2]) % 2 == 0:
        return ('status', 299)          # marked non-breaking: the later route on the path answers
    if act[0] in ('raise_http', 'return_http'):
        code = getattr(errors, act[1]).code or 200
        if handler == 'render-error-returns-other':
            return ('status', 409)
        return ('status', code)
    if act[0] == 'raise':
        if handler in ('reraise', 'reraise+broken-render-error'):
            return ('escape-original',)
        return ('status', 409 if handler == 'render-error-returns-other' else 500)
    v = act[1]
    if v == 'Response':
        return ('status', 200)
    if v == 'BaseResponse':
        return ('status', 202)
    # a non-Response value: becomes the render context if produced on the endpoint side of a rendered route
    endpoint_side = where == 'ep' or '.endpoint.' in where
    if endpoint_side and not norender:
        return ('status', 200)
    if handler in ('reraise', 'reraise+broken-render-error'):
        return ('escape-typeerror',)
    return ('status', 409 if handler == 'render-error-returns-other' else 500)


def key_for(case, kind):
    act = case['act']
    if act[0] == 'raise' and act[2].startswith('surrogate'):
        return 'C08/%s:surrogate-text' % kind
    return 'C08/%s' % kind


def judge(sh, case, record=True):
    app = app_for(case['handler'])
    ex, tr = send(app, case)
    exp = expected(case)
    sh.hit('handler:' + case['handler'])
    act = case['act']
    if tr['ran']:
        sh.hit('deviation-ran')
    if act[0] == 'raise':
        sh.hit('msg:' + act[2])
    brief = '%s %s [%s] %s@%s Accept=%r' % (case['method'], case['path'], case['handler'], act, case['where'], case['accept'])
    if record:
        sh.case(case, nontrivial=tr['ran'], klass='%s:%s' % (case['handler'], act[0]),
                sample=dict(case, status=ex.status, escaped=probe.safe_repr(ex.exc) if ex.exc else None))
    if not tr['ran']:
        return ex
    if exp[0] == 'escape-original':
        if ex.exc is None:
            sh.violation(key_for(case, 'reraise-swallowed'), '%s: handler re-raises, yet a response %s came back' % (brief, ex.status), case)
        elif ex.exc is not tr.get('raised'):
            sh.violation(key_for(case, 'reraise-not-original'), '%s: escaped %s is not the raised object %r' % (brief, probe.safe_repr(ex.exc), type(tr.get('raised'))), case)
        else:
            sh.hit('outcome:reraised-original')
        return ex
    if exp[0] == 'escape-typeerror':
        if not isinstance(ex.exc, TypeError):
            sh.violation(key_for(case, 'reraise-swallowed'), '%s: expected the non-Response TypeError to escape, got status %s exc %s' % (brief, ex.status, probe.safe_repr(ex.exc)), case)
        else:
            sh.hit('outcome:reraised-original')
        return ex
    if ex.exc is not None:
        sh.violation(key_for(case, 'exception-escaped'), '%s: %s: %s escaped the WSGI callable'
                     % (brief, type(ex.exc).__name__, probe._safe_str(ex.exc)[:200]), case)
        return ex
    if len(ex.sr_calls) != 1 or ex.status is None:
        sh.violation(key_for(case, 'incomplete-response'), '%s: start_response calls %r' % (brief, ex.sr_calls), case)
        return ex
    check_allow(ex, brief, case)
    if ex.status != exp[1]:
        sh.violation(key_for(case, 'wrong-status'), '%s: status %s, expected %s' % (brief, ex.status, exp[1]), case)
        return ex
    if act[0] == 'raise':
        sh.hit('outcome:500-from-exception')
    elif act[0] == 'return' and exp[1] == 500:
        sh.hit('outcome:500-from-nonresponse')
    elif act[0] == 'raise_http':
        sh.hit('outcome:http-raised')
    elif act[0] == 'return_http':
        sh.hit('outcome:http-returned')
    # a failing render_error must fall back to the default rendering of the same error
    if case['handler'] in ('broken-render-error', 'render-error-raises-http', 'reraise+broken-render-error', 'broken-render-error+debug-flag') and ex.status >= 400:
        ctrl, _ = send(app_for('default'), case)
        sh.hit('fallback-compared')
        for kn in sorted(_broken_kinds_seen):
            sh.seen('broken-renderer-failed-with', kn)
        if 'AttributeError' in _broken_kinds_seen and 'TypeError' in _broken_kinds_seen:
            sh.hit('broken-renderer:several-exception-types')
        if (ctrl.status, ctrl.header('Content-Type'), norm_body(ctrl.body)) != (ex.status, ex.header('Content-Type'), norm_body(ex.body)):
            sh.violation(key_for(case, 'fallback-differs'),
                         '%s: fallback gave %s %s %r, default rendering of the same error is %s %s %r'
                         % (brief, ex.status, ex.header('Content-Type'), ex.body[:160], ctrl.status,
                            ctrl.header('Content-Type'), ctrl.body[:160]), case)
    # raised vs returned: same status
    if act[0] in ('raise_http', 'return_http'):
        other = dict(case, act=['return_http' if act[0] == 'raise_http' else 'raise_http'] + list(act[1:]))
        ex2, tr2 = send(app, other)
        if tr2['ran'] and ex2.status != ex.status:
            sh.violation(key_for(case, 'raised-vs-returned'), '%s: status %s when %s, %s when %s'
                         % (brief, ex.status, act[0], ex2.status, other['act'][0]), case)
    return ex


def norm_body(b):
    import re
    # object addresses inside reprs differ between two executions of the same failure
    return re.sub(rb'0x[0-9a-fA-F]+', b'0x', b)


PROBES = [('GET', '/ok'), ('GET', '/item/abc'), ('POST', '/item/abc'), ('GET', '/nothing/here'),
          ('GET', '/d2/spyrender'), ('GET', '/d1/norender')]


def fingerprint(app):
    """API-level structure only (lazy caches a refactoring might add are none of our business):
    identity and order of the routing table, the error handler, the resources and middlewares"""
    return [('routes', tuple(id(r) for r in app.routes)), ('patterns', tuple(r.pattern for r in app.routes)),
            ('eh', id(app.error_handler)), ('resources', tuple(sorted((k, id(v)) for k, v in app.resources.items()))),
            ('middlewares', tuple(id(m) for m in app.middlewares))]


_sh = [None]


def check_allow(ex, brief, case):
    """nothing in these applications sets an Allow header except the framework's own 405: an answer with another status
    that carries one carries a left-over of some earlier request"""
    if ex.status is not None and ex.status != 405 and ex.header('Allow') is not None and _sh[0] is not None:
        _sh[0].violation('C08/header-of-an-earlier-answer', '%s: status %s carries Allow: %s' % (brief, ex.status, ex.header('Allow')), case)
    elif _sh[0] is not None and ex.status is not None and ex.status >= 400:
        _sh[0].hit('error-answer-headers-checked')


def take_probes(app):
    out = []
    for m, p in PROBES:
        ex = probe.request(app, m, p, token=None, trace=spies.new_trace())
        out.append((ex.status, ex.header('Content-Type'), ex.body, probe.safe_repr(ex.exc) if ex.exc else None,
                    sorted((k.lower(), v) for k, v in ex.headers)))
        check_allow(ex, '%s %s (probe)' % (m, p), {'probe': [m, p]})
    return out


def history(sh, rng, kind, steps):
    app = build_app(kind)     # a fresh application per history
    _apps_backup = _apps.get(kind)
    _apps[kind] = app
    try:
        base = take_probes(app)
        fp = fingerprint(app)
        cases = []
        for _ in range(steps):
            case = gen_case(rng)
            case['handler'] = kind
            cases.append(case)
            judge(sh, case, record=False)
            sh.hit('history:steps')
            now = take_probes(app)
            sh.hit('history:probes-compared')
            if now != base or fingerprint(app) != fp:
                diff = [(PROBES[i], base[i][:2], now[i][:2]) for i in range(len(base)) if base[i] != now[i]]
                sh.violation('C08/application-changed-by-failed-request',
                             'after %s %s %s@%s the probe set answers differently: %r (fingerprint equal: %s)'
                             % (case['method'], case['path'], case['act'], case['where'], diff, fingerprint(app) == fp),
                             {'history': cases, 'handler': kind})
                return
        sh.case({'history': [(c['path'], c['where'], c['act']) for c in cases], 'handler': kind}, nontrivial=True,
                klass='history:' + kind)
    finally:
        if _apps_backup is not None:
            _apps[kind] = _apps_backup
        else:
            _apps.pop(kind, None)


def plan(tier, seed):
    return [{'label': 'rand-%d' % i, 'n': 1300 if tier == 'quick' else 60000,
             'histories': 6 if tier == 'quick' else 300, 'timeout': 7200} for i in range(NSHARDS)]


def first_answers(sh):
    """The first error pages of a process's life, in the order 404 - 405 - 500 and as HTML: whatever an error page needs
    (templates, tables) must be there for the first one, whichever kind that is."""
    for kind in ('contextual', 'default+debug-flag', 'default'):
        app = build_app(kind)
        for method, path, want in (('GET', '/nothing/here', 404), ('DELETE', '/item/x', 405), ('GET', '/nothing/else', 404)):
            ex = probe.request(app, method, path, headers={'Accept': 'text/html'}, token=None, trace=spies.new_trace())
            sh.hit('first-error-pages-of-the-process')
            if ex.exc is not None or ex.status != want:
                sh.violation('C08/exception-escaped' if ex.exc is not None else 'C08/wrong-status',
                             'among the first requests of the process, %s %s as HTML under the %s handler: %s (expected %d)'
                             % (method, path, kind, probe.safe_repr(ex.exc)[:200] if ex.exc is not None else ex.status, want),
                             {'first_answers': kind})
                return


def run_shard(sh, spec):
    _sh[0] = sh
    first_answers(sh)
    HTTP_CLASSES[:] = http_classes()
    sh.notes['http_classes'] = len(HTTP_CLASSES)
    rng = Rng(spec['seed'], PROPERTY, spec['label'])
    for _ in range(spec['n']):
        judge(sh, gen_case(rng))
    for h in range(spec['histories']):
        history(sh, rng, rng.pick(HANDLERS), rng.randint(5, 30))


def replay(sh, case, spec):
    _sh[0] = sh
    HTTP_CLASSES[:] = http_classes()
    if 'first_answers' in case:
        return first_answers(sh)
    if 'probe' in case:
        # the left-over needs its history: a 405 first, then the probe
        app = build_app('default')
        probe.request(app, 'POST', '/item/abc', token=None, trace=spies.new_trace())
        ex = probe.request(app, case['probe'][0], case['probe'][1], token=None, trace=spies.new_trace())
        check_allow(ex, 'replayed probe', case)
        return
    if 'history' in case:
        app = build_app(case['handler'])
        _apps[case['handler']] = app
        base, fp = take_probes(app), fingerprint(app)
        for c in case['history']:
            judge(sh, c, record=False)
            if take_probes(app) != base or fingerprint(app) != fp:
                sh.violation('C08/application-changed-by-failed-request', 'reproduced after %r' % (c['act'],), case)
                return
        return
    ex = judge(sh, case, record=False)
    sh.notes['exchange'] = ex.brief()
