# -*- coding: utf-8 -*-
"""Deterministic thread scheduler for C12.

Worker threads run the real WSGI call under sys.settrace; a local tracer is installed only for
frames whose code lives in the clastic package under observation or in '<sinter generated ...>'
chains.  At every 'line' (optionally 'opcode') event of such a frame the running thread asks the
scheduler whether to hand the single turn token to another thread.  Exactly one worker runs at any
time, so a schedule is a deterministic list of decisions; the monitor's own state is only touched
by the thread that holds the token."""
import sys
import threading

WATCHDOG_S = 30.0


class Deadlock(Exception):
    pass


class Scheduler(object):
    def __init__(self, n, policy, roots, opcode_files=()):
        self.n = n
        self.policy = policy            # callable(tid, step, loc, runnable) -> tid to run next
        self.roots = tuple(roots)       # filename prefixes whose lines are yield points
        self.opcode_files = tuple(opcode_files)
        self.cv = threading.Condition()
        self.turn = None
        self.done = [False] * n
        self.steps = [0] * n
        self.switches = []              # (from, step, loc, to)
        self.points = set()
        self.inside = [None] * n        # current function name per thread (for 'both in dispatch' evidence)
        self.overlap_dispatch = False
        self.broken = None

    # -- called by worker threads -------------------------------------------------------------------
    def wait_turn(self, tid):
        with self.cv:
            while self.turn != tid and self.broken is None:
                if not self.cv.wait(WATCHDOG_S):
                    self.broken = 'watchdog: thread %d never got the turn' % tid
                    self.cv.notify_all()
        if self.broken:
            raise Deadlock(self.broken)

    def point(self, tid, loc, fname):
        self.steps[tid] += 1
        self.inside[tid] = fname
        if fname == 'dispatch' and any(self.inside[o] == 'dispatch' and not self.done[o] for o in range(self.n) if o != tid):
            self.overlap_dispatch = True
        runnable = [t for t in range(self.n) if not self.done[t]]
        nxt = self.policy(tid, self.steps[tid], loc, runnable)
        if nxt != tid and nxt in runnable:
            self.switches.append((tid, self.steps[tid], loc, nxt))
            self.points.add(loc)
            with self.cv:
                self.turn = nxt
                self.cv.notify_all()
            self.wait_turn(tid)

    def finish(self, tid):
        with self.cv:
            self.done[tid] = True
            self.inside[tid] = None
            rest = [t for t in range(self.n) if not self.done[t]]
            self.turn = self.policy(tid, -1, None, rest) if rest else None
            if rest and self.turn not in rest:
                self.turn = rest[0]
            self.cv.notify_all()

    # -- tracing ------------------------------------------------------------------------------------------
    def tracer_for(self, tid):
        roots, opfiles = self.roots, self.opcode_files

        def local(frame, event, arg):
            if event == 'line' or event == 'opcode':
                code = frame.f_code
                self.point(tid, (code.co_filename.rsplit('/', 1)[-1], frame.f_lineno), code.co_name)
            return local

        def glob(frame, event, arg):
            fn = frame.f_code.co_filename
            if fn.startswith(roots):
                if opfiles and fn.endswith(opfiles):
                    frame.f_trace_opcodes = True
                return local
            return None
        return glob

    def run(self, jobs, first=0):
        """jobs: list of callables (one per thread); returns list of results / exceptions"""
        results = [None] * self.n

        def body(tid):
            sys.settrace(self.tracer_for(tid))
            try:
                self.wait_turn(tid)
                results[tid] = ('ok', jobs[tid]())
            except Deadlock as d:
                results[tid] = ('deadlock', str(d))
            except BaseException as e:     # noqa - report, never lose
                results[tid] = ('raised', e)
            finally:
                sys.settrace(None)
                self.finish(tid)
        threads = [threading.Thread(target=body, args=(t,), daemon=True) for t in range(self.n)]
        self.turn = first
        for t in threads:
            t.start()
        for t in threads:
            t.join(WATCHDOG_S * 2)
            if t.is_alive():
                self.broken = self.broken or 'watchdog: a worker thread did not finish'
                with self.cv:
                    self.cv.notify_all()
        return results


def count_points(job, roots, opcode_files=()):
    """number of yield points of one job when run alone (deterministic)"""
    s = Scheduler(1, lambda tid, step, loc, runnable: tid, roots, opcode_files)
    s.run([job])
    return s.steps[0]


def preempt_once(a_steps):
    """policy: thread 0 runs a_steps points, then thread 1 runs to completion, then thread 0 resumes"""
    def policy(tid, step, loc, runnable):
        if step == -1:
            return runnable[0] if runnable else None
        if tid == 0 and step == a_steps and 1 in runnable:
            return 1
        return tid
    return policy


def random_policy(rng, p_switch):
    def policy(tid, step, loc, runnable):
        if step == -1:
            return rng.choice(runnable) if runnable else None
        if len(runnable) > 1 and rng.random() < p_switch:
            return rng.choice([t for t in runnable if t != tid])
        return tid
    return policy
