# -*- coding: utf-8 -*-
"""Synthesised application code.  A configuration is a *program*: real Python functions with
the wanted signatures (built by exec of generated source so inspect/FunctionBuilder see genuine
signatures incl. keyword-only, positional-only and defaulted parameters), real Middleware
subclasses, real Routes/Applications.  Every spy function logs symbolic enter/leave/raise events
to the trace of the exchange being served (thread-local, set by the probe), hands unique
per-request objects to next(), and follows a scripted behaviour.

Configuration format (JSON-able):
 cfg = {'levels': [level...],        # outermost application first; the last holds the route
        'route': {'bindings': [...], 'mws': [...], 'resources': [...], 'endpoint': f,
                  'render': f|None, 'methods': None|[...]},
        'beh': {fid: behaviour}}
 level = {'mws': [mw...], 'resources': [names], 'prefix': '/p0'}
 mw = {'mid','type','unique','reorderable','request': f|None,'endpoint': f|None,'render': f|None,
       'provides': [...],'endpoint_provides': [...],'render_provides': [...], 'style': 'method'|'attr'}
 f = {'fid': 'm0.request', 'params': [[name, kind]...], 'form': ...}
 kind in req | def | kwreq | kwdef | pos | posdef
"""
import threading
import zlib

from . import probe

FORMS = ('function', 'lambda', 'method', 'callable_object', 'staticmethod', 'classmethod', 'decorated')


class SpyError(Exception):
    def __init__(self, fid, tok=None):
        Exception.__init__(self, 'spy error from %s' % fid)
        self.fid, self.tok = fid, tok


class FrozenSpyError(SpyError):
    """an immutable exception (as attrs' frozen=True makes them, RerouteWSGI among them): the interpreter may set the
    traceback/cause/context slots, nobody may hang new attributes on it"""
    def __init__(self, fid, tok=None):
        SpyError.__init__(self, fid, tok)
        object.__setattr__(self, '_frozen', True)

    def __setattr__(self, name, value):
        if getattr(self, '_frozen', False) and name not in ('__traceback__', '__cause__', '__context__', '__suppress_context__', '__notes__'):
            raise AttributeError('frozen exception: cannot set %r' % name)
        Exception.__setattr__(self, name, value)


class Refused(Exception):
    """clastic refused while the harness was still synthesising callables (clastic_decorator)"""
    def __init__(self, error):
        Exception.__init__(self, repr(error))
        self.error = error


class Marker(object):
    """unique sentinel objects: resources, defaults, provided values, render contexts"""
    __slots__ = ('sym',)

    def __init__(self, sym):
        self.sym = sym

    def __repr__(self):
        return '<%s>' % ':'.join(str(s) for s in self.sym)

    def __bool__(self):
        # about half of all injected values are falsy objects (as 0, '' or an empty container would be): nothing in the
        # properties lets the framework treat a falsy resource, default, provided value or context as absent
        return zlib.crc32(repr(self.sym).encode('utf8')) % 2 == 0


def new_trace(environ=None):
    return {'events': [], 'environ': environ, 'ds': [], 'made': {}, 'keep': [], 'foreign': []}


def signature_src(params, with_self=False):
    """params in canonical order -> Python parameter list source + list of names"""
    order = {'pos': 0, 'posdef': 1, 'req': 2, 'def': 3, 'kwreq': 4, 'kwdef': 4}
    names = [p for p, _ in params]
    has_next = bool(params) and params[0][0] == 'next'
    rest = params[1:] if has_next else list(params)
    rest = sorted(rest, key=lambda pk: order[pk[1]])
    parts = (['self'] if with_self else [])
    seq = ([('next', 'pos' if any(k in ('pos', 'posdef') for _, k in rest) else 'req')] if has_next else []) + rest
    # positional-only group
    posonly = [pk for pk in seq if pk[1] in ('pos', 'posdef')]
    normal = [pk for pk in seq if pk[1] in ('req', 'def')]
    kwonly = [pk for pk in seq if pk[1] in ('kwreq', 'kwdef')]
    # a defaulted positional-only parameter forces every later positional one to be defaulted:
    # the generator never produces that combination (see gen), so plain emission is valid.
    for p, k in posonly:
        parts.append(p if k == 'pos' else '%s=__D__[(__FID__, %r)]' % (p, p))
    if posonly:
        parts.append('/')
    for p, k in normal:
        parts.append(p if k == 'req' else '%s=__D__[(__FID__, %r)]' % (p, p))
    if kwonly:
        parts.append('*')
        for p, k in kwonly:
            parts.append(p if k == 'kwreq' else '%s=__D__[(__FID__, %r)]' % (p, p))
    return ', '.join(parts), names


class Runtime(object):
    """Everything the spies of one configuration share."""

    def __init__(self, cfg):
        self.cfg = cfg
        self.beh = dict(cfg.get('beh') or {})
        self.flavour = dict(cfg.get('resp_flavour') or {})    # fid -> 'response' | 'base' | 'http'
        self.ctx_flavour = cfg.get('ctx_flavour')              # what a non-Response result is: a marker object, bytes, text, a container
        self.exc_flavour = dict(cfg.get('exc_flavour') or {})  # fid -> 'plain' | 'http' (an HTTPException that is raised)
        self.by_id = {}
        self.keep = []
        self.resources = {}
        self.none_resources = set()
        self.defaults = {}
        self.fspec = {}
        self.app = None
        self.apps = []
        self.lock = threading.Lock()
        self.calls = 0

    # -- registry --------------------------------------------------------------------------
    def mark(self, sym):
        m = Marker(sym)
        self.by_id[id(m)] = sym
        self.keep.append(m)
        return m

    def resource(self, name):
        if name in (self.cfg.get('none_resources') or ()):
            # a resource whose value is None: registered all the same, so it is what the name is bound to
            self.none_resources.add(name)
            return None
        if name not in self.resources:
            self.resources[name] = self.mark(['resource', name])
        return self.resources[name]

    def default(self, fid, p):
        key = (fid, p)
        if key not in self.defaults:
            self.defaults[key] = self.mark(['default', fid, p])
        return self.defaults[key]

    # -- symbolisation of what a spy actually received ---------------------------------------
    def symbolize(self, pname, value, tr):
        if value is None and pname in self.none_resources:
            return ['resource', pname]
        vid = id(value)
        s = self.by_id.get(vid)
        if s is not None:
            return s
        s = tr['made'].get(vid)
        if s is not None:
            return s
        from werkzeug.wrappers import BaseRequest
        if isinstance(value, BaseRequest):
            return ['request'] if value.environ is tr['environ'] else ['request', 'of-another-exchange']
        if value is self.app:
            return ['application']
        for a in self.apps:
            if value is a:
                return ['application', 'not-the-serving-one']
        tn = type(value).__name__
        if tn == 'DispatchState':
            for i, d in enumerate(tr['ds']):
                if d is value:
                    return ['dispatch_state', i]
            tr['ds'].append(value)
            return ['dispatch_state', len(tr['ds']) - 1]
        if tn == 'BoundRoute':
            if self.app is not None:
                if value is getattr(self.app, '_null_route', None):
                    return ['route', 'null']
                for i, r in enumerate(self.app.routes):
                    if r is value:
                        return ['route', i]
            return ['route', 'not-bound-in-serving-app']
        if isinstance(value, Marker):
            return ['stale'] + list(value.sym)
        if pname == 'next' and callable(value):
            return ['next']
        if value is None or isinstance(value, (str, int, float, bool)):
            return ['value', value]
        if isinstance(value, (list, tuple)):
            return ['value', list(value)]
        return ['unknown', tn]

    def sym_result(self, value, tr):
        s = tr['made'].get(id(value))
        if s is not None:
            return s
        if isinstance(value, SpyError):
            return ['exc', value.fid]
        from werkzeug.wrappers import BaseResponse
        if isinstance(value, BaseResponse):
            return ['resp', '<foreign>']
        if isinstance(value, BaseException):
            return ['foreign-exc', type(value).__name__, str(value)[:200]]
        if isinstance(value, Marker):
            return ['stale'] + list(value.sym)
        return ['foreign', type(value).__name__]

    # -- the body of every spy --------------------------------------------------------------
    def invoke(self, fid, args):
        tr = probe.current_trace()
        tok = probe.current_token()
        if tr is None:           # called outside an exchange (never expected)
            tr = new_trace()
        self.calls += 1
        ev = tr['events']
        f = self.fspec[fid]
        role = f['role']
        if '__extra__' in args:
            extra = args.pop('__extra__')
            tr['varkw_functions'] = tr.get('varkw_functions', 0) + 1
            if extra:
                tr.setdefault('undeclared', []).append([fid, sorted(extra)])
        ev.append(['enter', fid, {p: self.symbolize(p, v, tr) for p, v in args.items()}])
        for v in args.values():
            if type(v) is list and not any(v is x for x in tr.setdefault('lists', [])):
                tr['lists'].append(v)       # poisoned by the harness once the request is over (see di_eval)
        b = self.beh.get(fid, 'pass' if role == 'mw' else ('ctx' if role == 'endpoint' else 'resp'))

        def make(kind):
            if kind == 'resp':
                from werkzeug.wrappers import Response, BaseResponse
                fl = self.flavour.get(fid, 'response')
                if fl == 'http':          # a returned (not raised) HTTP error: a BaseResponse, not a Response
                    from clastic.errors import Forbidden
                    o = Forbidden(detail='resp:%s:%s' % (fid, tok))
                elif fl == 'base':
                    o = BaseResponse('resp:%s:%s' % (fid, tok), mimetype='text/plain')
                else:
                    o = Response('resp:%s:%s' % (fid, tok), mimetype='text/plain')
            elif kind == 'exc':
                if self.exc_flavour.get(fid) == 'werkzeug':
                    # an HTTP error of the underlying library, not clastic's own: to the framework an exception like any other
                    import werkzeug.exceptions
                    o = werkzeug.exceptions.NotFound('exc:%s:%s' % (fid, tok))
                elif (self.exc_flavour.get(fid) or '').startswith('builtin:'):
                    # application code raises the built-in exceptions too - TypeError, KeyError, AttributeError ... are not
                    # the framework's to interpret
                    import builtins
                    o = getattr(builtins, self.exc_flavour[fid][8:])('exc:%s:%s' % (fid, tok))
                elif self.exc_flavour.get(fid) == 'http':
                    from clastic.errors import Conflict
                    o = Conflict(detail='exc:%s:%s' % (fid, tok))
                else:
                    o = (FrozenSpyError if zlib.crc32(fid.encode()) % 2 else SpyError)(fid, tok)
            else:
                cf = self.ctx_flavour
                label = 'ctx:%s:%s' % (fid, tok)
                if cf == 'bytes-binary':
                    o = b'\xff\xfe\x89PNG ' + label.encode()
                elif cf == 'bytes-latin1':
                    o = ('caf\u00e9 ' + label).encode('latin-1')
                elif cf == 'bytes-text':
                    o = ('caf\u00e9 ' + label).encode('utf-8')
                elif cf == 'bytearray':
                    o = bytearray(b'\x80\x81 ' + label.encode())
                elif cf == 'str':
                    o = 'caf\u00e9 ' + label
                elif cf == 'dict':
                    o = {'ctx': label}
                elif cf == 'list':
                    o = [label]
                elif cf == 'empty-dict':
                    o = {}
                elif cf == 'exception-object':
                    # an exception *object* handed on as a value (for the render side to turn into an answer): not raised
                    o = LookupError(label)
                elif cf == 'exception-class':
                    o = type('NoSuchThing', (KeyError,), {})
                else:
                    o = Marker(['ctx', fid])
            tr['made'][id(o)] = [kind, fid]
            tr['keep'].append(o)
            return o

        if role != 'mw':
            if b == 'raise':
                e = make('exc')
                ev.append(['raise', fid, ['exc', fid]])
                raise e
            r = make('ctx' if b == 'ctx' else 'resp')
            ev.append(['leave', fid, tr['made'][id(r)]])
            return r

        nxt = args.get('next')
        if b == 'raise_before':
            e = make('exc')
            ev.append(['raise', fid, ['exc', fid]])
            raise e
        if b == 'short':
            r = make('resp')
            ev.append(['leave', fid, ['resp', fid]])
            return r
        if b == 'short_ctx':
            r = make('ctx')
            ev.append(['leave', fid, ['ctx', fid]])
            return r
        provided = {}
        for p in f['provides']:
            o = Marker(['provided', fid, p])
            tr['made'][id(o)] = ['provided', fid, p]
            tr['keep'].append(o)
            provided[p] = o
        try:
            if f['spec'].get('next_style') == 'pos':
                # values handed to next() positionally, in the order of the provides tuple
                r = nxt(*[provided[p] for p in f['provides']])
            else:
                r = nxt(**provided)
        except Exception as e:
            if b == 'swallow':
                r = make('resp')
                ev.append(['leave', fid, ['resp', fid]])
                return r
            ev.append(['raise', fid, self.sym_result(e, tr)])
            raise
        if b == 'raise_after':
            e = make('exc')
            ev.append(['raise', fid, ['exc', fid]])
            raise e
        if b == 'replace':
            r = make('resp')
        ev.append(['leave', fid, self.sym_result(r, tr)])
        return r


# ---- building real callables ---------------------------------------------------------------

def make_callable(rt, f, role, provides=()):
    """f: function spec.  Returns the callable object to hand to clastic."""
    fid = f['fid']
    form = f.get('form', 'function')
    rt.fspec[fid] = {'role': role, 'provides': list(provides), 'spec': f}
    params = [(p[0], p[1]) for p in f['params']]
    D = {}
    for p, k in params:
        if k in ('def', 'kwdef', 'posdef'):
            D[(fid, p)] = rt.default(fid, p)
    names = [p for p, _ in params]
    varkw = bool(f.get('varkw'))

    def _sig(params, **k):
        # f['varkw']: the function also takes **__extra__ - it declares no name by that, and must never find anything in it
        sig, nm = signature_src(params, **k)
        if varkw:
            sig = (sig + ', ' if sig else '') + '**__extra__'
        return sig, nm
    call = '__spy__(__FID__, {%s})' % ', '.join(['%r: %s' % (n, n) for n in names] + (["'__extra__': __extra__"] if varkw else []))
    ns = {'__spy__': rt.invoke, '__D__': D, '__FID__': fid}
    safe = fid.replace('.', '_').replace('-', '_')
    if form == 'lambda':
        sig, _ = _sig(params)
        src = 'fn = lambda %s: %s\n' % (sig, call)
        exec(src, ns)
        return ns['fn']
    if form == 'function':
        sig, _ = _sig(params)
        exec('def %s(%s):\n    return %s\nfn = %s\n' % (safe, sig, call, safe), ns)
        return ns['fn']
    if form == 'decorated':
        from clastic.decorators import clastic_decorator
        sig, _ = _sig(params)
        exec('def %s(%s):\n    return %s\nfn = %s\n' % (safe, sig, call, safe), ns)

        @clastic_decorator
        def deco(func):
            if zlib.crc32(fid.encode()) % 2:
                # a class-based decorator: what it returns is an object with __call__, not a function
                class Wrapped(object):
                    def __init__(self, inner):
                        self.inner = inner

                    def __call__(self, *a, **kw):
                        return self.inner(*a, **kw)
                return Wrapped(func)

            def wrapper(*a, **kw):
                return func(*a, **kw)
            return wrapper
        try:
            return deco(ns['fn'])     # clastic code: its refusal is a construction verdict
        except Exception as e:
            raise Refused(e)
    # 'falsy': the instance behind the method / the callable object is an empty container (bool(obj) is False)
    falsy = '    def __len__(self):\n        return 0\n' if f.get('falsy') else ''
    if form == 'method':
        sig, _ = _sig(params, with_self=True)
        exec('class K(object):\n%s    def %s(%s):\n        return %s\nfn = K().%s\n' % (falsy, safe, sig, call, safe), ns)
        return ns['fn']
    if form == 'callable_object':
        sig, _ = _sig(params, with_self=True)
        descr = '    def __get__(self, obj, objtype=None):\n        return self\n' if f.get('descriptor') else ''
        exec('class K(object):\n%s%s    def __call__(%s):\n        return %s\nfn = K()\n' % (falsy, descr, sig, call), ns)
        if f.get('wrapped'):
            # a class-based decorator that did functools.update_wrapper(self, func): the object advertises the function it
            # wraps (__wrapped__, __name__, ...), but what gets called - and what must be analysed - is its own __call__
            import functools

            def zz_wrapped_function(zz_unrelated, request=None, *zz_args):
                raise AssertionError('the wrapped function is never called by the framework')
            functools.update_wrapper(ns['fn'], zz_wrapped_function)
        return ns['fn']
    if form == 'staticmethod':
        sig, _ = _sig(params)
        exec('class K(object):\n    @staticmethod\n    def %s(%s):\n        return %s\nfn = K.%s\n' % (safe, sig, call, safe), ns)
        return ns['fn']
    if form == 'classmethod':
        sig, _ = _sig(params, with_self=True)
        sig = sig.replace('self', 'cls', 1)
        exec('class K(object):\n    @classmethod\n    def %s(%s):\n        return %s\nfn = K.%s\n' % (safe, sig, call, safe), ns)
        return ns['fn']
    raise ValueError('unknown form %r' % form)


_type_cache_lock = threading.Lock()


def make_middleware(rt, mw, type_registry):
    """A real clastic Middleware subclass instance.  Middlewares with the same 'type' share a
    class (type equality drives clastic's uniqueness rule)."""
    from clastic import Middleware
    tname = mw['type']
    if mw.get('alias_of') and ('instance', mw['alias_of']) in type_registry:
        # the very same middleware object included once more (legal for a non-unique type): one more layer
        return type_registry[('instance', mw['alias_of'])]
    cls = type_registry.get(tname)
    if cls is None:
        base = Middleware
        if mw.get('base'):
            # a subclass of another middleware type of the configuration (a *different* type for the uniqueness rule)
            base = type_registry.get(mw['base'])
            if base is None:
                base = type_registry[mw['base']] = type(str(mw['base']), (Middleware,), {
                    'unique': bool(mw.get('base_unique', True)), 'reorderable': True, '__repr__': lambda self: '<mw %s>' % self.mid})
        # 'clsname': an unrelated type that merely carries the same class name as another one (two modules, a class factory)
        cls = type(str(mw.get('clsname') or tname), (base,), {'unique': bool(mw.get('unique', True)),
                                               'reorderable': bool(mw.get('reorderable', True)),
                                               '__repr__': lambda self: '<mw %s>' % self.mid})
        type_registry[tname] = cls
    inst = cls()
    type_registry[('instance', mw['mid'])] = inst
    inst.mid = mw['mid']
    inst.provides = tuple(mw.get('provides') or ())
    inst.endpoint_provides = tuple(mw.get('endpoint_provides') or ())
    inst.render_provides = tuple(mw.get('render_provides') or ())
    for phase, attr in (('request', 'provides'), ('endpoint', 'endpoint_provides'), ('render', 'render_provides')):
        f = mw.get(phase)
        if f:
            setattr(inst, phase, make_callable(rt, dict(f, form=f.get('form', 'function')), 'mw',
                                               provides=mw.get(attr) or ()))
    return inst


def make_decoy(d):
    """a route placed before the real one that matches the same paths, binds the URL name d['name'] and is
    passed over after matching (method mismatch, or a non-breaking error)"""
    from clastic import Route
    from clastic.errors import NotFound
    pattern = '/r/<%s*>' % d['name']
    if d['kind'] == 'method':
        return Route(pattern, lambda: None, methods=['DELETE'])

    def declines():
        raise NotFound(is_breaking=False)
    return Route(pattern, declines)


class Built(object):
    def __init__(self):
        self.app = None
        self.error = None
        self.stage = None
        self.apps = []
        self.route = None
        self.rt = None


def pattern_of(route):
    """route['last_op'] ('?', '*' or '+', optional): the arity operator of the last binding"""
    bs = list(route['bindings'])
    ops = [''] * len(bs)
    if bs and route.get('last_op'):
        ops[-1] = route['last_op']
    if bs and route.get('last_type'):
        # a typed last binding: '<b:int>', '<b?int>', '<b*int>' ...
        ops[-1] = (ops[-1] or ':') + route['last_type']
    return '/r' + ''.join('/<%s%s>' % (b, op) for b, op in zip(bs, ops))


def level_prefix(level, k):
    """mount pattern of the next inner application inside level k (may carry URL bindings)"""
    return level.get('prefix', '/p%d' % k) + ''.join('/<%s>' % b for b in level.get('prefix_bindings') or [])


def prefix_binding_names(cfg, from_level=0):
    return [b for l in cfg['levels'][from_level:-1] for b in (l.get('prefix_bindings') or [])]


def full_prefix(cfg, values=None):
    values = values or {}
    return ''.join(l.get('prefix', '/p%d' % k) + ''.join('/' + values.get(b, 'v_' + b) for b in (l.get('prefix_bindings') or []))
                   for k, l in enumerate(cfg['levels'][:-1]))


def request_path(cfg, values=None, sep='/'):
    """sep='//': a non-canonical spelling of the same path (the route pattern is a leaf: it is executed directly
    in the default slash mode, with the same values)"""
    values = values or {}
    out = full_prefix(cfg, values) + '/r'
    for b in cfg['route']['bindings']:
        v = values.get(b, 'v_' + b)
        if v is None or v == []:
            continue                    # an absent optional / multi binding (the last one)
        if isinstance(v, list):
            out += ''.join('/' + x for x in v)      # single slashes inside a multi binding (C05's known finding is not C02's subject)
        else:
            out += sep + v
    return out


def _late_middleware(where):
    from clastic import Middleware

    def request(next):
        tr = probe.current_trace()
        if tr is not None:
            tr['events'].append(['enter', 'appended-to-the-callers-list-afterwards:' + where, {}])
        return next()
    return type('Late_%s' % where.replace('-', '_'), (Middleware,), {'request': staticmethod(request)})()


def build(cfg, error_handler_factory=None, slash_mode=None):
    """Construct the configuration with the real clastic.  Function/class synthesis happens
    first (harness bugs surface here as ordinary exceptions); only clastic's own constructors
    run inside the guarded region, whose exception is the construction verdict."""
    from clastic import Application, Route
    from clastic.errors import ErrorHandler
    rt = Runtime(cfg)
    out = Built()
    out.rt = rt
    types = {}
    route = cfg['route']
    try:
        ep = make_callable(rt, route['endpoint'], 'endpoint')
        rn = make_callable(rt, route['render'], 'render') if route.get('render') else None
        route_mws = [make_middleware(rt, m, types) for m in route['mws']]
        route_res = {n: rt.resource(n) for n in route['resources']}
        level_objs = []
        for lv in cfg['levels']:
            level_objs.append(([make_middleware(rt, m, types) for m in lv['mws']],
                               {n: rt.resource(n) for n in lv['resources']}))
        # sibling routes declared *before* the real one, with middlewares of their own (which must stay theirs)
        sibling_routes = []
        for i, sib in enumerate(route.get('siblings') or []):
            from clastic import Response as _Resp
            sib_mws = [make_middleware(rt, m, types) for m in sib['mws']]
            if sib.get('embedded'):
                sibling_routes.append(('/sib%d' % i, Application([Route('/x', lambda: _Resp('sibling'))], middlewares=sib_mws)))
            else:
                sibling_routes.append(Route('/sib%d' % i, lambda: _Resp('sibling'), middlewares=sib_mws))
    except Refused as r:
        out.stage = 'decorator'
        out.error = r.error
        return out
    ehf = error_handler_factory or (lambda: ErrorHandler(reraise_uncaught=True))
    try:
        out.stage = 'route'
        kw = {}
        if route.get('methods'):
            kw['methods'] = route['methods']
        via_factory = bool(route.get('render_via_factory')) and rn is not None
        r = Route(pattern_of(route), ep, 'template-name' if via_factory else rn, middlewares=route_mws, resources=route_res, **kw)
        out.route = r
        # what the caller does with *its* list afterwards is the caller's business: the route has the middlewares it was given
        route_mws.append(_late_middleware('route'))
        route_res['late_resource'] = object()
        inner = None
        for k in range(len(cfg['levels']) - 1, -1, -1):
            out.stage = 'level-%d' % k
            mws, res = level_objs[k]
            akw = {}
            if slash_mode:
                akw['slash_mode'] = slash_mode
            if route.get('render_via_factory') and rn is not None:
                # every level offers the same factory: its product is the spy render function
                akw['render_factory'] = (lambda render_arg, _rn=rn: _rn)
            if inner is None:
                routes = sibling_routes + [make_decoy(d) for d in (route.get('decoys') or [])] + [r]
            else:
                how = cfg['levels'][k].get('embed')
                if how:
                    # the embedding spelled as a SubApplication object, with or without the option that keeps the embedded
                    # routes' own slash mode (which is about slashes, nothing else)
                    from clastic import SubApplication
                    routes = [SubApplication(level_prefix(cfg['levels'][k], k), inner, inherit_slashes=(how != 'subapp-own-slashes'))]
                else:
                    routes = [(level_prefix(cfg['levels'][k], k), inner)]
            if cfg.get('build_via_add'):
                # "...or adding a route to one": the same dependency check must happen in add()
                app_k = Application([], resources=res, middlewares=mws, error_handler=ehf(), **akw)
                mws.append(_late_middleware('level-%d' % k))        # (the same for an application's list)
                for entry in routes:
                    app_k.add(entry)
                inner = app_k
            else:
                inner = Application(routes, resources=res, middlewares=mws, error_handler=ehf(), **akw)
            out.apps.insert(0, inner)
        out.app = inner
        if cfg.get('rebound_elsewhere'):
            # the innermost application is *also* mounted in an unrelated application built afterwards (and never asked):
            # who serves a request is decided by who is asked, not by who bound the routes last
            out.stage = 'rebinding-elsewhere'
            out.elsewhere = Application([('/elsewhere/', out.apps[-1])])
        out.stage = 'done'
    except Exception as e:
        out.error = e
    rt.app = out.app
    rt.apps = out.apps
    return out
