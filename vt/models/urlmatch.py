# -*- coding: utf-8 -*-
"""Reference matcher for clastic's URL mini-language, written from the statement of C05.
No regular expression is used to *match paths*; the pattern text is parsed by hand.

A pattern is a list of elements: ('lit', text) or ('bind', name, op, type).
match(elements, branch, mode, path, klass) answers whether the path's segments can be
assigned, in order, to the elements with every bound segment a valid literal of its type
under lexical class `klass` ('strict' or 'liberal', DESIGN.md O3)."""

TYPES = ('int', 'float', 'str', 'unicode')
OPS = {'': (1, 1), ':': (1, 1), '?': (0, 1), '*': (0, None), '+': (1, None)}
NAME_START = 'abcdefghijklmnopqrstuvwxyzABCDEFGHIJKLMNOPQRSTUVWXYZ_'
NAME_CHARS = NAME_START + '0123456789'
LIT_CHARS = set('abcdefghijklmnopqrstuvwxyzABCDEFGHIJKLMNOPQRSTUVWXYZ0123456789_-')


class BadPattern(Exception):
    pass


class OutOfScope(Exception):
    """the pattern uses something C05's quantifier excludes (O1)"""


def parse(pattern, liberal_literals=False):
    """-> (elements, branch).  Raises BadPattern for what the statement says is rejected,
    OutOfScope for literal segments outside [A-Za-z0-9_-] (liberal_literals: any text without angle brackets is a literal -
    for the checks whose subject is not the pattern language)."""
    if not pattern.startswith('/'):
        raise BadPattern('no leading slash')
    if '//' in pattern:
        raise BadPattern('double slash')
    parts = pattern.split('/')[1:]
    branch = False
    if parts and parts[-1] == '' :
        branch = True
        parts = parts[:-1]
    elements, names = [], set()
    for part in parts:
        if part.startswith('<'):
            if not part.endswith('>') or part.count('<') != 1 or part.count('>') != 1:
                raise OutOfScope('malformed binding %r' % part)
            inner = part[1:-1]
            i = 0
            if not inner or inner[0] not in NAME_START:
                raise OutOfScope('binding without a name %r' % part)
            while i < len(inner) and inner[i] in NAME_CHARS:
                i += 1
            name = inner[:i]
            j = i
            while j < len(inner) and inner[j] not in NAME_CHARS:
                j += 1
            op, typ = inner[i:j], inner[j:]
            if any(c not in NAME_CHARS for c in typ):
                raise OutOfScope('malformed binding %r' % part)
            if name in names:
                raise BadPattern('duplicate binding')
            names.add(name)
            if typ and typ not in TYPES:
                raise BadPattern('unknown type')
            if op not in OPS:
                raise BadPattern('unknown operator')
            elements.append(('bind', name, op, typ or 'str'))
        else:
            if not part or (any(c not in LIT_CHARS for c in part) and not (liberal_literals and not any(c in '<>' for c in part))):
                raise OutOfScope('literal outside [A-Za-z0-9_-]: %r' % part)
            elements.append(('lit', part))
    return elements, branch


# ---- lexical classes of a segment (O3) ---------------------------------------------

_DIG = set('0123456789')


def _strict_int(s):
    if s[:1] in ('+', '-'):
        s = s[1:]
    return bool(s) and all(c in _DIG for c in s)


def _strict_float(s):
    if s[:1] in ('+', '-'):
        s = s[1:]
    mant, exp = s, None
    for e in ('e', 'E'):
        if e in s:
            mant, _, exp = s.partition(e)
            break
    if exp is not None:
        if exp[:1] in ('+', '-'):
            exp = exp[1:]
        if not exp or any(c not in _DIG for c in exp):
            return False
    if mant.count('.') > 1:
        return False
    ip, _, fp = mant.partition('.')
    if not ip and not fp:
        return False
    return all(c in _DIG for c in ip) and all(c in _DIG for c in fp)


def _liberal_int(s):
    try:
        int(s)
        return True
    except Exception:
        return False


def _liberal_float(s):
    try:
        float(s)
        return True
    except Exception:
        return False


_cache = {}


def seg_class(seg):
    """-> (strict_int, liberal_int, strict_float, liberal_float)"""
    r = _cache.get(seg)
    if r is None:
        if len(_cache) > 200000:
            _cache.clear()
        r = _cache[seg] = (_strict_int(seg), _liberal_int(seg), _strict_float(seg), _liberal_float(seg))
    return r


def unconvertible(seg):
    """lexically an integer, yet int() refuses it (CPython's digit limit): the statement's
    two clauses - 'valid literal' and 'a segment that fails conversion makes the route not
    match' - pull in opposite directions, so a missed match is don't-care (O3)."""
    c = seg_class(seg)
    return c[0] and not c[1]


def seg_ok(seg, typ, klass):
    if typ in ('str', 'unicode'):
        return True
    c = seg_class(seg)
    if typ == 'int':
        return (c[0] and c[1]) if klass == 'strict' else c[1]
    return c[2] if klass == 'strict' else c[3]


def convert(seg, typ):
    if typ == 'int':
        return int(seg)
    if typ == 'float':
        return float(seg)
    return seg


# ---- segmentation per slash mode -----------------------------------------------------

def segments(path, branch, mode):
    """-> list of segments, or None when the path's slashes already rule out a match."""
    if mode == 'strict':
        if branch:
            if not path.endswith('/'):
                return None
            path = path[:-1]
        if path == '':
            return []
        if not path.startswith('/'):
            return None
        segs = path.split('/')[1:]
        if any(s == '' for s in segs):
            return None
        return segs
    # redirect / rewrite: repeated and trailing slashes tolerated, leading slash required
    if path == '':
        return []
    if not path.startswith('/'):
        return None
    return [s for s in path.split('/') if s]


def assignable(elements, segs, klass):
    """Can segs be assigned in order to elements?  Plain memoised search."""
    n, m = len(elements), len(segs)
    memo = {}

    def go(i, j):
        if i == n:
            return j == m
        key = (i, j)
        r = memo.get(key)
        if r is not None:
            return r
        el = elements[i]
        res = False
        if el[0] == 'lit':
            res = j < m and segs[j] == el[1] and go(i + 1, j + 1)
        else:
            lo, hi = OPS[el[2]]
            typ = el[3]
            if lo == 0 and go(i + 1, j):
                res = True
            else:
                k = j
                while k < m and (hi is None or k - j < hi) and seg_ok(segs[k], typ, klass):
                    k += 1
                    if k - j >= lo and go(i + 1, k):
                        res = True
                        break
        memo[key] = res
        return res
    return go(0, 0)


def all_optional(elements):
    return all(e[0] == 'bind' and OPS[e[2]][0] == 0 for e in elements)


def dont_care(elements, branch, mode, path):
    """O2: strict mode, non-branch pattern all of whose elements may be absent, '' vs '/'."""
    return mode == 'strict' and not branch and path in ('', '/') and all_optional(elements)


def match(elements, branch, mode, path, klass):
    segs = segments(path, branch, mode)
    if segs is None:
        return False
    return assignable(elements, segs, klass)


def check_values(elements, branch, mode, path, values):
    """values: the dict the implementation returned.  -> None if it is the conversion of a
    valid (liberal) assignment of the path's segments, else a text saying what is wrong."""
    segs = segments(path, branch, mode)
    if segs is None:
        return 'matched although the slashes rule a match out'
    names = [e[1] for e in elements if e[0] == 'bind']
    if sorted(values) != sorted(names):
        return 'keys %r != bindings %r' % (sorted(values), sorted(names))
    j = 0
    for el in elements:
        if el[0] == 'lit':
            if j >= len(segs) or segs[j] != el[1]:
                return 'literal %r not at segment %d of %r' % (el[1], j, segs)
            j += 1
            continue
        _, name, op, typ = el
        lo, hi = OPS[op]
        v = values[name]
        want_t = {'int': int, 'float': float}.get(typ, str)
        if hi is None:
            if type(v) is not list:
                return '%s: expected a list, got %r' % (name, v)
            if len(v) < lo:
                return '%s: %d values, at least %d required' % (name, len(v), lo)
            taken = segs[j:j + len(v)]
            if len(taken) != len(v):
                return '%s: takes %d segments but only %d remain' % (name, len(v), len(taken))
            for item, seg in zip(v, taken):
                if type(item) is not want_t:
                    return '%s: item %r is not %s' % (name, item, want_t.__name__)
                if not seg_ok(seg, typ, 'liberal') or item != convert(seg, typ):
                    return '%s: item %r is not the conversion of segment %r' % (name, item, seg)
            j += len(v)
        else:
            if v is None:
                if lo != 0:
                    return '%s: None for a required binding' % name
                continue
            if type(v) is not want_t:
                return '%s: value %r is not %s' % (name, v, want_t.__name__)
            if j >= len(segs):
                return '%s: value %r but no segment left' % (name, v)
            seg = segs[j]
            if not seg_ok(seg, typ, 'liberal') or v != convert(seg, typ):
                return '%s: value %r is not the conversion of segment %r' % (name, v, seg)
            j += 1
    if j != len(segs):
        return 'assignment covers %d of %d segments' % (j, len(segs))
    return None


def render_pattern(elements, branch):
    out = []
    for e in elements:
        if e[0] == 'lit':
            out.append('/' + e[1])
        else:
            typ = e[3]
            op = e[2]
            if typ == 'str' and len(e) > 4 and e[4] == 'notype':
                out.append('/<%s%s>' % (e[1], op))
            else:
                if op == '' and typ:
                    op = ':'
                out.append('/<%s%s%s>' % (e[1], op, typ))
    s = ''.join(out)
    if branch:
        s += '/'
    return s or '/'
