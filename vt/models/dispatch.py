# -*- coding: utf-8 -*-
"""Reference dispatcher for C06 (also used by C10/C11/C19): walk the model routing table in
order; the first route whose pattern matches the path (models/urlmatch.py) and whose method set
admits the method answers, unless it produces a non-breaking HTTP error."""
from . import urlmatch as um

BEHAVIOURS = {
    # name: (status, breaking?, kind)
    'ok': (200, True, 'response'),
    'raise_403': (403, True, 'raise'),
    'return_404': (404, True, 'return'),
    'raise_503': (503, True, 'raise'),
    'raise_nb_403': (403, False, 'raise'),
    'raise_nb_404': (404, False, 'raise'),
    'return_nb_403': (403, False, 'return'),
    'return_nb_404': (404, False, 'return'),
    'uncaught': (500, True, 'uncaught'),
    # HTTP errors that say nothing about breaking: an error ends the request unless it is *marked* non-breaking
    'raise_404_unmarked': (404, True, 'raise-unmarked'),
    'return_404_unmarked': (404, True, 'return-unmarked'),
    'raise_410_unmarked': (410, True, 'raise-unmarked'),
    'return_400_unmarked': (400, True, 'return-unmarked'),
}


def admits(methods, method):
    if not methods:
        return True
    ms = set(m.upper() for m in methods)
    if 'GET' in ms:
        ms.add('HEAD')
    return method.upper() in ms


def effective_methods(methods):
    ms = set(m.upper() for m in methods or ())
    if 'GET' in ms:
        ms.add('HEAD')
    return ms


_parsed = {}


def path_matches(pattern, mode, path):
    key = pattern
    pe = _parsed.get(key)
    if pe is None:
        pe = _parsed[key] = um.parse(pattern, liberal_literals=True)
    elements, branch = pe
    return um.match(elements, branch, mode, path, 'strict')


def dispatch(table, path, method, mode='redirect'):
    """table: list of {'rid','pattern','methods','beh'}.
    -> {'status', 'by': rid|None, 'executed': [rids], 'allow': set|None}"""
    executed = []
    last_nb = None
    allowed = set()
    path_matched = False
    for idx, r in enumerate(table):
        if not path_matches(r['pattern'], r.get('mode', mode), path):
            continue
        path_matched = True
        if not admits(r.get('methods'), method):
            allowed |= effective_methods(r.get('methods'))
            continue
        executed.append(r['rid'])
        status, breaking, kind = BEHAVIOURS[r['beh']]
        if breaking:
            return {'status': status, 'by': r['rid'], 'by_index': idx, 'executed': executed, 'allow': None}
        last_nb = (status, r['rid'], idx)
    if last_nb:
        return {'status': last_nb[0], 'by': last_nb[1], 'by_index': last_nb[2], 'executed': executed, 'allow': None}
    if allowed:
        return {'status': 405, 'by': None, 'executed': executed, 'allow': allowed}
    return {'status': 404, 'by': None, 'executed': executed, 'allow': None}
