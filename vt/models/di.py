# -*- coding: utf-8 -*-
"""Reference model of clastic's dependency injection and middleware nesting, written from the
statements of C01-C04 (and the merge rule of C03/C10).  Pure Python, no clastic import.

A configuration (see vt/spies.py for the concrete format) is reduced to *views*: one per
(application level, route) binding that construction performs, including each level's catch-all
route.  For a view the model answers
  verdict(view)      -> list of Issue(kind, detail); empty = this binding must be accepted
  reference_run(...) -> the trace of enter/leave/raise events the documented onion produces,
                        with the symbolic value every parameter must receive.
"""

REQUEST_BUILTINS = ('request', '_application', '_route', '_dispatch_state')
RESERVED = REQUEST_BUILTINS + ('context', 'next')

REQUIRED_KINDS = ('req', 'kwreq', 'pos')
DEFAULT_KINDS = ('def', 'kwdef', 'posdef')

# issue kinds
NAME = 'name-error'        # the statement demands NameError
ANY = 'reject-any'         # rejected, exception type not fixed by the statement
EITHER = 'either'          # construction may go either way (cycle check, positional-only: O4)


class Issue(object):
    def __init__(self, kind, code, detail):
        self.kind, self.code, self.detail = kind, code, detail

    def __repr__(self):
        return '%s:%s(%s)' % (self.kind, self.code, self.detail)


def merge_middlewares(outer, inner):
    """outer list first; a unique type is kept once at its outermost position; a unique,
    non-reorderable duplicate is an error.  Returns (merged, error_or_None)."""
    merged = list(outer)
    for mw in inner:
        if mw['unique'] and any(m['type'] == mw['type'] for m in merged):
            if mw.get('reorderable', True):
                continue
            return merged, 'non-reorderable unique middleware %s included twice' % mw['type']
        merged.append(mw)
    return merged, None


def views_of(cfg):
    """Every binding that constructing the configuration performs, innermost application first
    (that is the order in which the harness constructs them).  Each view:
    {'level': k, 'kind': 'route'|'null', 'bindings', 'resources', 'mws', 'endpoint', 'render',
     'merge_error'}"""
    levels = cfg['levels']
    route = cfg['route']
    out = []
    for k in range(len(levels) - 1, -1, -1):
        # null route of level k: that application's own middlewares and resources only
        out.append({'level': k, 'kind': 'null', 'bindings': [], 'resources': set(levels[k]['resources']),
                    'mws': list(levels[k]['mws']), 'endpoint': None, 'render': None, 'merge_error': None,
                    'reserved_app_resources': [r for r in levels[k]['resources'] if r in RESERVED]})
        mws, err = list(route['mws']), None
        res = set(route['resources'])
        for j in range(len(levels) - 1, k - 1, -1):
            mws, e = merge_middlewares(levels[j]['mws'], mws)
            err = err or e
            res |= set(levels[j]['resources'])
        pbind = [b for j in range(k, len(levels) - 1) for b in (levels[j].get('prefix_bindings') or [])]
        out.append({'level': k, 'kind': 'route', 'bindings': pbind + list(route['bindings']), 'resources': res,
                    'mws': mws, 'endpoint': route['endpoint'], 'render': route.get('render'),
                    'merge_error': err, 'reserved_app_resources': []})
    return out


def _params(f):
    return [(p[0], p[1]) for p in f['params']]


def _phase_funcs(mws, phase):
    prov_attr = {'request': 'provides', 'endpoint': 'endpoint_provides', 'render': 'render_provides'}[phase]
    return [(mw[phase], list(mw.get(prov_attr) or [])) for mw in mws if mw.get(phase)]


def _has_cycle(graph):
    WHITE, GREY, BLACK = 0, 1, 2
    color = {}

    def visit(n):
        color[n] = GREY
        for m in graph.get(n, ()):
            c = color.get(m, WHITE)
            if c == GREY:
                return True
            if c == WHITE and visit(m):
                return True
        color[n] = BLACK
        return False
    return any(color.get(n, WHITE) == WHITE and visit(n) for n in list(graph))


def verdict(view):
    """-> list of Issues for this binding (empty: must be accepted)."""
    issues = []
    mws = view['mws']
    if view['merge_error']:
        issues.append(Issue(ANY, 'merge', view['merge_error']))
    for r in view['reserved_app_resources']:
        issues.append(Issue(NAME, 'reserved-resource', r))

    # -- structure: next first in middleware functions, never in endpoint/render ----------
    for mw in mws:
        for phase in ('request', 'endpoint', 'render'):
            f = mw.get(phase)
            if not f:
                continue
            ps = _params(f)
            if not ps or ps[0][0] != 'next':
                issues.append(Issue(ANY, 'mw-without-next', f['fid']))
    for f in (view['endpoint'], view['render']):
        if f and any(p == 'next' for p, _ in _params(f)):
            issues.append(Issue(ANY, 'next-in-endpoint-or-render', f['fid']))

    # -- conflicts: a name offered by more than one source ------------------------------------
    offered = {}

    def offer(name, src):
        offered.setdefault(name, []).append(src)
    for b in view['bindings']:
        offer(b, 'url')        # a name bound twice (prefix and pattern) is two offers - and an invalid pattern
    for r in view['resources']:
        offer(r, 'resource')
    for b in RESERVED:
        offer(b, 'builtin')
    for mw in mws:
        for attr in ('provides', 'endpoint_provides', 'render_provides'):
            for p in mw.get(attr) or []:
                offer(p, mw['mid'] + '.' + attr)
    for name, srcs in sorted(offered.items()):
        if len(srcs) > 1:
            issues.append(Issue(NAME, 'conflict', '%s from %s' % (name, '+'.join(srcs))))

    # -- satisfiability by position -----------------------------------------------------------
    base = set(view['bindings']) | set(view['resources']) | set(REQUEST_BUILTINS)

    def need(f, avail, where):
        for p, kind in _params(f):
            if p == 'next':
                continue
            if kind in REQUIRED_KINDS and p not in avail:
                issues.append(Issue(NAME, 'unsatisfied', '%s needs %s (%s)' % (f['fid'], p, where)))

    avail = set(base)
    for f, prov in _phase_funcs(mws, 'request'):
        need(f, avail, 'request phase')
        avail |= set(prov)
    req_all = set(avail)
    avail = set(req_all)
    for f, prov in _phase_funcs(mws, 'endpoint'):
        need(f, avail, 'endpoint phase')
        avail |= set(prov)
    if view['endpoint']:
        need(view['endpoint'], avail, 'endpoint')
    avail = set(req_all) | {'context'}
    for f, prov in _phase_funcs(mws, 'render'):
        need(f, avail, 'render phase')
        avail |= set(prov)
    if view['render']:
        need(view['render'], avail, 'render')

    # -- corners where the statement leaves construction open --------------------------------
    funcs = [f for mw in mws for f in (mw.get('request'), mw.get('endpoint'), mw.get('render')) if f]
    funcs += [f for f in (view['endpoint'], view['render']) if f]
    if any(kind in ('pos', 'posdef') for f in funcs for _, kind in _params(f)):
        issues.append(Issue(EITHER, 'positional-only', 'O4'))
    graph = {}
    for mw in mws:
        for phase, attr in (('request', 'provides'), ('endpoint', 'endpoint_provides'),
                            ('render', 'render_provides')):
            f = mw.get(phase)
            deps = [p for p, _ in _params(f)] if f else []
            for name in mw.get(attr) or []:
                graph.setdefault(name, set()).update(deps)
    if _has_cycle(graph):
        issues.append(Issue(EITHER, 'provides-cycle', 'undocumented cycle check'))
    return issues


def summarize(issue_lists):
    """Combine the issues of all bindings of a configuration.
    -> ('accept'|'reject-name'|'reject-any'|'either'|'either-reject-ok', issues)"""
    issues = [i for l in issue_lists for i in l]
    hard = [i for i in issues if i.kind in (NAME, ANY)]
    soft = [i for i in issues if i.kind == EITHER]
    if hard:
        if soft or any(i.kind == ANY for i in hard):
            return 'reject-any', issues
        return 'reject-name', issues
    if soft:
        return 'either', issues
    return 'accept', issues


# ---- reference interpreter ---------------------------------------------------------------------

class RefExc(Exception):
    def __init__(self, sym):
        self.sym = sym


def reference_run(view, beh, url_values, final_null=None):
    """Execute the documented onion symbolically.
    beh: fid -> behaviour.  url_values: binding -> symbolic value.
    Returns (trace, outcome) with outcome ['resp'|'ctx'|'exc', ...]."""
    trace = []
    mws = view['mws']
    scope0 = {}
    for b in view['bindings']:
        scope0[b] = url_values[b]
    for r in view['resources']:
        scope0[r] = ['resource', r]
    scope0['request'] = ['request']
    scope0['_application'] = ['application']
    scope0['_route'] = ['route']
    scope0['_dispatch_state'] = ['dispatch_state', 0]

    def enter(f, scope):
        args = {}
        for p, kind in _params(f):
            if p == 'next':
                args[p] = ['next']
            elif p in scope:
                args[p] = scope[p]
            else:
                args[p] = ['default', f['fid'], p]
        trace.append(['enter', f['fid'], args])

    def layer(funcs, i, scope, final):
        if i == len(funcs):
            return final(scope)
        f, prov = funcs[i]
        fid = f['fid']
        enter(f, scope)
        b = beh.get(fid, 'pass')
        if b == 'raise_before':
            trace.append(['raise', fid, ['exc', fid]])
            raise RefExc(['exc', fid])
        if b == 'short':
            trace.append(['leave', fid, ['resp', fid]])
            return ['resp', fid]
        if b == 'short_ctx':
            trace.append(['leave', fid, ['ctx', fid]])
            return ['ctx', fid]
        inner = dict(scope)
        for p in prov:
            inner[p] = ['provided', fid, p]
        try:
            r = layer(funcs, i + 1, inner, final)
        except RefExc as e:
            if b == 'swallow':
                trace.append(['leave', fid, ['resp', fid]])
                return ['resp', fid]
            trace.append(['raise', fid, e.sym])
            raise
        if b == 'raise_after':
            trace.append(['raise', fid, ['exc', fid]])
            raise RefExc(['exc', fid])
        if b == 'replace':
            r = ['resp', fid]
        trace.append(['leave', fid, r])
        return r

    def call_final(f, scope, kind):
        fid = f['fid']
        enter(f, scope)
        b = beh.get(fid, 'ctx' if kind == 'endpoint' else 'resp')
        if b == 'raise':
            trace.append(['raise', fid, ['exc', fid]])
            raise RefExc(['exc', fid])
        r = ['ctx', fid] if b == 'ctx' else ['resp', fid]
        trace.append(['leave', fid, r])
        return r

    def process_request(scope):
        def ep_final(s):
            if view['endpoint'] is None:
                return list(final_null or ['resp', '<foreign>'])
            return call_final(view['endpoint'], s, 'endpoint')
        ctx = layer(_phase_funcs(mws, 'endpoint'), 0, dict(scope), ep_final)
        if ctx[0] == 'resp':
            return ctx
        rscope = dict(scope)
        rscope['context'] = ctx

        def rn_final(s):
            if view['render'] is None:
                return s['context']
            return call_final(view['render'], s, 'render')
        return layer(_phase_funcs(mws, 'render'), 0, rscope, rn_final)

    try:
        out = layer(_phase_funcs(mws, 'request'), 0, dict(scope0), process_request)
    except RefExc as e:
        out = e.sym
    return trace, out
