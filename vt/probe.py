# -*- coding: utf-8 -*-
"""The client boundary.  Every request-level monitor consumes Exchange records made here,
outside the implementation: the environ exactly as sent (raw PATH_INFO / QUERY_STRING, not
re-parsed by a helper), every start_response call with its position relative to the body
chunks, the chunks, whether close() existed and was called, the escaping exception."""
import io
import sys
import threading

_tls = threading.local()


def current_token():
    return getattr(_tls, 'token', None)


def current_trace():
    return getattr(_tls, 'trace', None)


def set_current(token, trace):
    _tls.token = token
    _tls.trace = trace


def wsgi_str(text):
    """A decoded path (unicode) -> the native latin-1 'bytes-as-str' WSGI wants."""
    return text.encode('utf8').decode('latin-1')


def make_environ(method='GET', path='/', query='', headers=None, body=b'',
                 script_name='', host='verif.test', scheme='http', raw_path=False, extra=None):
    env = {
        'REQUEST_METHOD': method,
        'SCRIPT_NAME': script_name,
        'PATH_INFO': path if raw_path else wsgi_str(path),
        'QUERY_STRING': query,
        'SERVER_NAME': host,
        'SERVER_PORT': '80' if scheme == 'http' else '443',
        'HTTP_HOST': host,
        'SERVER_PROTOCOL': 'HTTP/1.1',
        'wsgi.version': (1, 0),
        'wsgi.url_scheme': scheme,
        'wsgi.input': io.BytesIO(body),
        'wsgi.errors': io.StringIO(),
        'wsgi.multithread': False,
        'wsgi.multiprocess': False,
        'wsgi.run_once': False,
    }
    if body or method in ('POST', 'PUT', 'PATCH'):
        env['CONTENT_LENGTH'] = str(len(body))
    for k, v in (headers or {}).items():
        ku = k.upper().replace('-', '_')
        if ku in ('CONTENT_TYPE', 'CONTENT_LENGTH'):
            env[ku] = v
        else:
            env['HTTP_' + ku] = v
    if extra:
        env.update(extra)
    return env


class Exchange(object):
    __slots__ = ('environ', 'sr_calls', 'chunks', 'had_close', 'closed', 'exc', 'exc_tb',
                 'sr_after_body', 'nonbytes_chunk', 'token', 'trace', 'iter_exc')

    def __init__(self, environ):
        self.environ = environ
        self.sr_calls = []          # (status, headers, exc_info is not None, chunks_before)
        self.chunks = []
        self.had_close = False
        self.closed = False
        self.exc = None
        self.exc_tb = None
        self.sr_after_body = False
        self.nonbytes_chunk = None
        self.token = None
        self.trace = None

    # conveniences -----------------------------------------------------------------
    @property
    def status(self):
        if not self.sr_calls:
            return None
        try:
            return int(self.sr_calls[-1][0].split(' ', 1)[0])
        except Exception:
            return None

    @property
    def status_line(self):
        return self.sr_calls[-1][0] if self.sr_calls else None

    @property
    def headers(self):
        return list(self.sr_calls[-1][1]) if self.sr_calls else []

    def header(self, name, default=None):
        name = name.lower()
        for k, v in self.headers:
            if k.lower() == name:
                return v
        return default

    def header_all(self, name):
        name = name.lower()
        return [v for k, v in self.headers if k.lower() == name]

    @property
    def body(self):
        return b''.join(c for c in self.chunks if isinstance(c, bytes))

    @property
    def text(self):
        return self.body.decode('utf8', 'replace')

    def length_problem(self):
        """a Content-Length that does not announce the bytes that are sent (a client that honours it gets a body cut short,
        or waits for bytes that never come); None when consistent, absent, or no body is due (HEAD, 204, 304, 1xx)"""
        cl = self.header('Content-Length')
        if cl is None or self.environ.get('REQUEST_METHOD') == 'HEAD' or self.status in (204, 304) or (self.status or 200) < 200:
            return None
        try:
            n = int(cl)
        except ValueError:
            return 'Content-Length %r is not a number' % cl
        if n != len(self.body):
            return 'Content-Length announces %d bytes, %d were sent' % (n, len(self.body))
        return None

    def brief(self):
        d = {'method': self.environ.get('REQUEST_METHOD'), 'path': self.environ.get('PATH_INFO'),
             'query': self.environ.get('QUERY_STRING'), 'status': self.status,
             'body': self.body[:300]}
        if self.exc is not None:
            d['escaped'] = '%s: %s' % (type(self.exc).__name__, _safe_str(self.exc)[:300])
        return d


def _safe_str(e):
    try:
        return str(e)
    except Exception:
        try:
            return repr(e)
        except Exception:
            return '<unprintable %s>' % type(e).__name__


def safe_repr(e):
    try:
        return repr(e)
    except Exception:
        return '<unreprable %s>' % type(e).__name__


def call_wsgi(app, environ, token=None, trace=None, catch=Exception):
    """Drive one request through a WSGI callable and record the interaction."""
    ex = Exchange(environ)
    ex.token, ex.trace = token, trace
    prev = (current_token(), current_trace())
    set_current(token, trace)

    def start_response(status, headers, exc_info=None):
        ex.sr_calls.append((status, list(headers), exc_info is not None, len(ex.chunks)))
        if ex.chunks:
            ex.sr_after_body = True

        def write(data):
            ex.chunks.append(data)
        return write

    it = None
    try:
        try:
            it = app(environ, start_response)
            ex.had_close = hasattr(it, 'close')
            for chunk in it:
                if not isinstance(chunk, bytes) and ex.nonbytes_chunk is None:
                    ex.nonbytes_chunk = repr(type(chunk))
                if chunk and not ex.sr_calls:
                    ex.sr_after_body = True
                ex.chunks.append(chunk)
        except catch as e:
            ex.exc = e
        finally:
            if it is not None and hasattr(it, 'close'):
                try:
                    it.close()
                    ex.closed = True
                except catch as e:
                    if ex.exc is None:
                        ex.exc = e
    finally:
        set_current(*prev)
    return ex


def request(app, method='GET', path='/', query='', headers=None, body=b'', token=None,
            trace=None, **kw):
    env = make_environ(method, path, query, headers, body, **kw)
    return call_wsgi(app, env, token=token, trace=trace)
