# -*- coding: utf-8 -*-
"""Real clastic routes from routing-table specs (model: vt/models/dispatch.py)."""
from . import probe
from .models.dispatch import BEHAVIOURS


class Boom(Exception):
    pass


def make_factory(label):
    """a render factory: render_arg -> render(context) stamping which factory produced the response"""
    from clastic import Response

    def factory(render_arg):
        def render(context):
            rid = context.get('rid') if isinstance(context, dict) else None
            return Response('rendered-by:%s:%s:%s' % (label, render_arg, rid), mimetype='text/plain',
                            headers={'X-Route': rid or '?', 'X-Rendered-By': label})
        return render
    factory.label = label
    return factory


def make_endpoint(rid, beh, bindings=(), returns_context=False):
    """endpoint that logs ['ep', rid, params] to the current trace and behaves as scripted"""
    from clastic import Response
    from clastic import errors
    status, breaking, kind = BEHAVIOURS[beh]
    src = ('def ep_%s(%s):\n    return _run(dict(%s))\n'
           % (rid, ', '.join(bindings), ', '.join('%s=%s' % (b, b) for b in bindings)))

    def _run(params):
        tr = probe.current_trace()
        if tr is not None:
            tr['events'].append(['ep', rid, params])
        if kind == 'response':
            if returns_context:
                return {'rid': rid}
            return Response('route:%s:%s' % (rid, probe.current_token()), mimetype='text/plain',
                            headers={'X-Route': rid})
        if kind == 'uncaught':
            raise Boom('uncaught in %s' % rid)
        cls = {403: errors.Forbidden, 404: errors.NotFound, 503: errors.ServiceUnavailable, 410: errors.Gone, 400: errors.BadRequest}[status]
        if kind.endswith('-unmarked'):
            exc = cls(detail='err:%s:%s' % (rid, probe.current_token()), headers={'X-Route': rid})
        else:
            exc = cls(detail='err:%s:%s' % (rid, probe.current_token()), is_breaking=breaking,
                      headers={'X-Route': rid})
        if kind.startswith('raise'):
            raise exc
        return exc
    ns = {'_run': _run}
    exec(src, ns)
    return ns['ep_' + rid]


def bindings_of(pattern):
    from .models import urlmatch as um
    elements, _ = um.parse(pattern)
    return [e[1] for e in elements if e[0] == 'bind']


def make_route(spec, **kw):
    from clastic import Route
    ep = make_endpoint(spec['rid'], spec['beh'], bindings_of(spec['pattern']), returns_context=bool(spec.get('render_arg')))
    rkw = dict(kw)
    if spec.get('render_arg'):
        rkw['render'] = 'tmpl-' + spec['rid']
    if spec.get('methods') is not None:
        # (an empty collection is passed on as it is: it restricts nothing)
        rkw['methods'] = list(spec['methods']) if spec['methods'] or not spec.get('methods_as_tuple') else ()
    if spec.get('mode'):
        rkw['slash_mode'] = spec['mode']
    if spec.get('with_render') and 'render' not in rkw:
        # a renderer on the route: it only ever sees contexts - responses and HTTP errors, returned or raised, pass it by
        from clastic import Response as _R
        rkw['render'] = lambda context: _R('rendered:%r' % (context,), mimetype='text/plain', headers={'X-Rendered': '1'})
    if spec.get('route_res'):
        # resources of the route itself; 'res_shared' is a name that applications define too (no conflict: the serving
        # application's value wins)
        rkw['resources'] = {'res_shared': object(), 'rr_' + spec['rid']: object()}
    return Route(spec['pattern'], ep, **rkw)
