#!/bin/bash
# setup_cmd: offline install of the two third-party helpers beside the harness (never into /venv).
set -e
cd "$(dirname "$0")"
if [ ! -d .deps/icontract ] || [ ! -d .deps/jsonschema ]; then
  rm -rf .deps
  PIP_NO_INDEX=1 /venv/bin/pip install --quiet --no-index --find-links /opt/veriftools/wheels \
      --target .deps icontract jsonschema >/dev/null 2>&1 || {
        echo "setup: pip install into .deps failed" >&2; exit 1; }
fi
/venv/bin/python -B -c "import sys; sys.path.insert(0,'.deps'); import icontract, jsonschema; print('setup ok: icontract', icontract.__version__)"
